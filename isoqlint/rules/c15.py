"""C15 - saved assignments round-trip losslessly (structural part).

Z1 writer/reader wire-type trees agree (objects, abridged reader, framing, side files, pickle tuple)
Z2 codec internals of serialization.py: every write_X/read_X pair is symmetric
Z3 every constructor field is serialised or is in the derived-field table
"""
import ast

from ..engine.program import AnalysisError, dotted, src, walk_no_nested, call_name
from ..engine import wire, flow, staticeval

SER = "src/serialization.py"
ISO = "src/isoform_assignment.py"

OBJECT_PAIRS = [
    # (module, class, writer, reader, compare names?)
    (ISO, "MatchEvent", "serialize", "deserialize", True),
    (ISO, "IsoformMatch", "serialize", "deserialize", True),
    (ISO, "BasicReadAssignment", "serialize", "deserialize", True),
    (ISO, "ReadAssignment", "serialize", "deserialize", True),
    ("src/gene_info.py", "GeneInfo", "serialize", "deserialize", True),
]

# fields set by __init__ that are deliberately not written, with the reason
DERIVED_FIELDS = {
    ("ReadAssignment", "gene_info"): "re-attached by the loader from the preceding gene-info record",
    ("ReadAssignment", "corrected_introns"): "recomputed from corrected_exons by junctions_from_blocks in deserialize",
}


def _names_match(w, r):
    if w is None or r is None:
        return True   # not derivable on one side: not compared
    if isinstance(w, tuple) or isinstance(r, tuple):
        w = tuple(w) if isinstance(w, (tuple, list)) else (w,)
        r = tuple(r) if isinstance(r, (tuple, list)) else (r,)
        if len(w) != len(r):
            return False
        return all(_names_match(a, b) for a, b in zip(w, r))
    return w == r


def compare_trees(ctx, rule, what, wfunc, rfunc, wops, rops, names=True):
    fq = "%s / %s" % (wfunc._qualname, rfunc._qualname)
    n = max(len(wops), len(rops))
    bad = False
    for i in range(n):
        if i >= len(wops):
            op, fld, node = rops[i]
            ctx.fail(rule, node, fq, src(node), "%s: reader consumes %s (#%d) that the writer never writes"
                     % (what, wire.fmt(op), i))
            bad = True
            break
        if i >= len(rops):
            op, fld, node = wops[i]
            ctx.fail(rule, node, fq, src(node), "%s: writer emits %s for field %s (#%d) that the reader never reads"
                     % (what, wire.fmt(op), fld, i))
            bad = True
            break
        (wo, wf, wn), (ro, rf, rn) = wops[i], rops[i]
        if not wire.ops_equal(wo, ro):
            ctx.fail(rule, rn, fq, "%s <-> %s" % (src(wn) if not isinstance(wn, ast.For) else "for " + src(wn.iter),
                                                   src(rn) if not isinstance(rn, ast.For) else "for " + src(rn.iter)),
                     "%s: position #%d written as %s (field %s) but read as %s (field %s)"
                     % (what, i, wire.fmt(wo), wf, wire.fmt(ro), rf))
            bad = True
            break
        if names and not _names_match(wf, rf):
            ctx.fail(rule, rn, fq, "%s <-> %s" % (wf, rf),
                     "%s: position #%d (%s) is written from field %s but stored into field %s"
                     % (what, i, wire.fmt(wo), wf, rf))
            bad = True
            continue
        ctx.ok(rule, "%s:%d" % (rn._module.rel, rn.lineno), "%s #%d %s %s" % (what, i, wire.fmt(wo), wf or rf or ""))
    return not bad


def z1_objects(prog, ctx, wc, tag="Z1"):
    count = 0
    trees = {}
    for rel, cls, wname, rname, names in OBJECT_PAIRS:
        wf = prog.func(rel, "%s.%s" % (cls, wname))
        rf = prog.func(rel, "%s.%s" % (cls, rname))
        wops = wire.writer_ops(wc, wf)
        rops = wire.reader_ops(wc, rf)
        trees[cls] = wops
        compare_trees(ctx, "Z1", "%s wire format" % cls, wf, rf, wops, rops, names)
        count += 1
    # abridged reader: must consume exactly ReadAssignment's tree
    wf = prog.func(ISO, "ReadAssignment.serialize")
    rf = prog.func(ISO, "BasicReadAssignment.deserialize_from_read_assignment")
    rops = wire.reader_ops(wc, rf)
    # names: kept values must come from the same-named field
    compare_trees(ctx, "Z1", "abridged reader vs ReadAssignment format", wf, rf, trees["ReadAssignment"], rops, True)
    count += 1
    return count, trees


def _const_value(prog, node, clsdef=None):
    """Evaluate a small integer constant expression (class attrs / serialization consts)."""
    wc_consts = wire.WireCtx(prog).consts
    env = dict(wc_consts)
    if clsdef is not None:
        for st in clsdef.body:
            if isinstance(st, ast.Assign) and isinstance(st.targets[0], ast.Name):
                try:
                    env[st.targets[0].id] = staticeval.const_expr(st.value, env)
                except staticeval.NoEval:
                    pass
    d = dotted(node)
    if d is not None:
        last = d.split(".")[-1]
        if last in env:
            return env[last]
    try:
        return staticeval.const_expr(node, env)
    except staticeval.NoEval:
        raise AnalysisError("cannot evaluate constant %s" % src(node))


def z1_framing(prog, ctx, wc):
    rel = "src/assignment_io.py"
    printer = prog.cls(rel, "TmpFileAssignmentPrinter")
    n = 0
    tags = {}
    for meth, const_name, payload in (("add_gene_info", "GENE_INFO", "GeneInfo"),
                                      ("add_read_info", "READ_ASSIGNMENT", "ReadAssignment"),
                                      ("__del__", "SHORT_TERMINATION_INT", None)):
        if meth == "__del__":
            # the stream terminator: written by whichever method finalises the stream (close() since the resume fix, else __del__)
            cand = [m_ for m_ in ("close", "__del__") if prog.try_func(rel, "TmpFileAssignmentPrinter." + m_) is not None
                    and "SHORT_TERMINATION_INT" in src(prog.try_func(rel, "TmpFileAssignmentPrinter." + m_))]
            if not cand:
                raise AnalysisError("TmpFileAssignmentPrinter: no method writes the stream terminator")
            meth = cand[0]
        f = prog.func(rel, "TmpFileAssignmentPrinter." + meth)
        calls = [c for c in walk_no_nested(f) if isinstance(c, ast.Call)]
        tagw = [c for c in calls if call_name(c) and call_name(c).split(".")[-1] in ("write_short_int", "write_int")]
        if len(tagw) != 1:
            raise AnalysisError("TmpFileAssignmentPrinter.%s: expected exactly one tag write, found %d" % (meth, len(tagw)))
        c = tagw[0]
        width = wc.consts["SHORT_INT_BYTES"] if call_name(c).endswith("write_short_int") else wc.width(c.args[2] if len(c.args) > 2 else None)
        tagname = dotted(c.args[0])
        if tagname is None or tagname.split(".")[-1] != const_name:
            ctx.fail("Z1", c, f._qualname, src(c), "frame tag of %s is %s, expected the %s constant the loader tests"
                     % (meth, src(c.args[0]), const_name))
        else:
            ctx.ok("Z1", "%s:%d" % (rel, c.lineno), "frame tag %s written with width %d" % (const_name, width))
        tags[const_name] = (_const_value(prog, c.args[0], printer), width, c)
        n += 1
        if payload:
            ser = [x for x in calls if isinstance(x.func, ast.Attribute) and x.func.attr == "serialize"]
            if len(ser) != 1 or ser[0].lineno < c.lineno:
                ctx.fail("Z1", f, f._qualname, f.name, "frame for %s must write the tag and then exactly one serialize()" % payload)
            else:
                ctx.ok("Z1", "%s:%d" % (rel, ser[0].lineno), "tag %s followed by one serialize()" % const_name)
    vals = [v[0] for v in tags.values()]
    if len(set(vals)) != len(vals):
        ctx.fail("Z1", printer, "TmpFileAssignmentPrinter", "GENE_INFO/READ_ASSIGNMENT/SHORT_TERMINATION_INT",
                 "frame tags are not pairwise distinct: %s" % vals)
    else:
        ctx.ok("Z1", rel, "frame tags pairwise distinct %s" % sorted(vals))
    for name, (v, w, c) in tags.items():
        if not (0 <= v < (1 << (8 * w))):
            ctx.fail("Z1", c, "TmpFileAssignmentPrinter", src(c), "tag %s=%d does not fit %d bytes" % (name, v, w))
        else:
            ctx.ok("Z1", "%s:%d" % (rel, c.lineno), "tag %s=%d fits %d bytes" % (name, v, w))
    # reader side
    # the method that reads the next record tag: the one assigning self.current_id from a read_* call
    base_cls = prog.cls(rel, "BaseTmpFileAssignmentLoader")
    rid = None
    for name_, fm in prog.methods_of(base_cls, inherited=False).items():
        if name_ != "__init__" and any(isinstance(st_, ast.Assign) and dotted(st_.targets[0]) == "self.current_id" and isinstance(st_.value, ast.Call)
                                        and (call_name(st_.value) or "").split(".")[-1].startswith("read_") for st_ in walk_no_nested(fm)):
            rid = fm
    if rid is None:
        raise AnalysisError("BaseTmpFileAssignmentLoader: no method reads the record tag into self.current_id")
    tag_reader = rid.name
    rcalls = [c for c in walk_no_nested(rid) if isinstance(c, ast.Call) and call_name(c)
              and call_name(c).split(".")[-1] in ("read_short_int", "read_int")]
    if len(rcalls) != 1:
        raise AnalysisError("_read_id: expected one tag read")
    rw = wc.consts["SHORT_INT_BYTES"] if call_name(rcalls[0]).endswith("read_short_int") else \
        wc.width(rcalls[0].args[1] if len(rcalls[0].args) > 1 else None)
    for name, (v, w, c) in tags.items():
        if w != rw:
            ctx.fail("Z1", rcalls[0], rid._qualname, src(rcalls[0]),
                     "tag %s written with %d bytes but read with %d" % (name, w, rw))
        else:
            ctx.ok("Z1", "%s:%d" % (rel, rcalls[0].lineno), "tag %s read width %d == write width" % (name, rw))
    for meth, const_name in (("has_next", "SHORT_TERMINATION_INT"), ("is_gene_info", "GENE_INFO"),
                             ("is_read_assignment", "READ_ASSIGNMENT")):
        f = prog.func(rel, "BaseTmpFileAssignmentLoader." + meth)
        cmp_ = [x for x in walk_no_nested(f) if isinstance(x, ast.Compare)]
        okc = False
        for cm in cmp_:
            for side in [cm.left] + cm.comparators:
                d = dotted(side)
                if d and d.split(".")[-1] == const_name:
                    okc = True
        want_op = ast.NotEq if meth == "has_next" else ast.Eq
        if not okc or not cmp_ or not isinstance(cmp_[0].ops[0], want_op):
            ctx.fail("Z1", f, f._qualname, src(f.body[-1]), "%s must compare the current tag with %s" % (meth, const_name))
        else:
            ctx.ok("Z1", "%s:%d" % (rel, f.lineno), "%s tests %s" % (meth, const_name))
        n += 1
    # loaders: each branch deserialises exactly once then reads the next tag
    for cls, want in (("NormalTmpFileAssignmentLoader", {"is_gene_info": "GeneInfo.deserialize",
                                                         "is_read_assignment": "ReadAssignment.deserialize"}),
                      ("QuickTmpFileAssignmentLoader", {"is_gene_info": "GeneInfo.deserialize",
                                                        "is_read_assignment": "BasicReadAssignment.deserialize_from_read_assignment"})):
        f = prog.func(rel, cls + ".get_object")
        seen = {}
        # path-wise (elif chain, guard clauses, ... alike): which record kind a path has established, what it reads then
        for pth in flow.paths(f):
            kind = None
            for t_, pol in pth.conds():
                for atom, ap in flow.conjuncts(t_, pol):
                    cn_ = (call_name(atom) or "").split(".")[-1] if isinstance(atom, ast.Call) else None
                    if cn_ in want and ap and kind is None:
                        kind = cn_
            calls = [call_name(c) for st_ in pth.stmts() if not isinstance(st_, (ast.If, ast.For, ast.While, ast.With, ast.Try))
                     for c in ast.walk(st_) if isinstance(c, ast.Call)]
            des = [c for c in calls if c and c.endswith(("deserialize", "deserialize_from_read_assignment"))]
            rids = [c for c in calls if c and c.split(".")[-1] == tag_reader]
            if kind is None:
                if des:
                    ctx.fail("Z1", pth.exit_node or f, f._qualname, "path %s" % pth.describe()[:80], "a record is deserialised (%s) on a path that "
                             "has not established its kind" % des)
                continue
            raw = [c for c in calls if c and c.split(".")[-1] in ("read_int", "read_string", "read_int_neg", "read_short_int", "read_list",
                                                                      "read_dict", "read_bool_array", "read_string_or_none", "seek")]
            if not des and raw and kind == "is_gene_info" and cls.startswith("Normal"):
                # the full loader consumes the record with primitive reads and hands back something else than the decoded record
                if (kind, "bad") not in seen:
                    ctx.fail("Z1", pth.exit_node or f, f._qualname, "%s record skipped: %s" % (kind, pth.describe()[:80]),
                             "after %s() the loader consumes the record with primitive reads (%s) instead of %s and returns an object that "
                             "was not decoded from it: a saved record is replaced by an earlier one whenever the skipped fields differ"
                             % (kind, sorted(set(raw)), want[kind]))
                seen[(kind, "bad")] = True
            elif not des and len(rids) == 1:
                # the record is decoded through a call the analysis cannot resolve (a method picked into a variable, a dispatch table)
                if (kind, "bad") not in seen:
                    ctx.undecided("Z1", pth.exit_node or f, f._qualname, "after %s() no call of %s is visible on the path (decoded through an "
                                  "indirect call?)" % (kind, want[kind]))
                seen[(kind, "bad")] = True
            elif des != [want[kind]] or len(rids) != 1:
                if (kind, "bad") not in seen:
                    ctx.fail("Z1", pth.exit_node or f, f._qualname, "%s: %s" % (kind, pth.describe()[:80]),
                             "after %s() the loader must call %s once and then read the next tag once (found %s, %d tag reads)"
                             % (kind, want[kind], des, len(rids)))
                seen[(kind, "bad")] = True
            elif kind not in seen:
                ctx.ok("Z1", "%s:%d" % (rel, f.lineno), "%s.%s -> %s then next tag" % (cls, kind, want[kind]))
                n += 1
            seen[kind] = True
        for k in want:
            if k not in seen:
                ctx.fail("Z1", f, f._qualname, f.name, "no branch handles %s" % k)
    return n


def z1_side_files(prog, ctx, wc):
    rel = "src/dataset_processor.py"
    n = 0
    # info file
    w = prog.func(rel, "DatasetProcessor.collect_reads")
    r = prog.func(rel, "DatasetProcessor.load_read_info")

    def handle_ops(func, handle_names, writing):
        seq = []
        for st in walk_no_nested(func):
            pass
        calls = []
        for st in func.body:
            calls.extend(wire._calls_in_eval_order(st))
        for c in calls:
            nm = call_name(c)
            if not nm:
                continue
            last = nm.split(".")[-1]
            prims = wire.PRIMS_W if writing else wire.PRIMS_R
            if last not in prims:
                continue
            hidx = 1 if writing else 0
            if len(c.args) <= hidx or dotted(c.args[hidx]) not in handle_names:
                continue
            seq.append(c)
        return seq

    def op_of(c, writing):
        last = call_name(c).split(".")[-1]
        a = c.args
        if last in ("write_int", "read_int"):
            i = 2 if writing else 1
            return ("int", wc.width(a[i] if len(a) > i else None))
        if last in ("write_list", "read_list"):
            return ("list", wire._func_ref_op(wc, a[2] if writing else a[1], writing))
        if last in ("write_string", "read_string"):
            return ("str",)
        if last in ("write_short_int", "read_short_int"):
            return ("int", wc.consts["SHORT_INT_BYTES"])
        raise AnalysisError("unsupported side-file codec call %s" % src(c))

    wseq = [(op_of(c, True), wire._field_of_expr(c.args[0]), c) for c in handle_ops(w, {"info_dumper"}, True)]
    rseq = [(op_of(c, False), None, c) for c in handle_ops(r, {"info_loader"}, False)]
    if not wseq or not rseq:
        raise AnalysisError("info file writer/reader not found (handles info_dumper / info_loader)")
    compare_trees(ctx, "Z1", "<save>_info file", w, r, wseq, rseq, names=False)
    n += 1
    # the order of the returned tuple must match the writer's order
    ret = [s for s in walk_no_nested(r) if isinstance(s, ast.Return)]
    if ret and isinstance(ret[0].value, ast.Tuple):
        order = [src(e) for e in ret[0].value.elts]
        assigned = {}
        for st in walk_no_nested(r):
            if isinstance(st, ast.Assign) and isinstance(st.targets[0], ast.Name):
                for i, (_o, _f, c) in enumerate(rseq):
                    if any(x is c for x in ast.walk(st.value)):
                        assigned[st.targets[0].id] = i
        idx = [assigned.get(o) for o in order]
        if idx != sorted(x for x in idx if x is not None) or None in idx:
            ctx.fail("Z1", ret[0], r._qualname, src(ret[0]), "load_read_info returns its values in a different order than read")
        else:
            ctx.ok("Z1", "%s:%d" % (rel, ret[0].lineno), "info file values returned in read order %s" % order)

    # multimapper files
    w = prog.func(rel, "DatasetProcessor.resolve_multimappers")
    r = prog.func_inlined(rel, "construct_models_in_parallel")
    wl = [c for c in ast.walk(w) if isinstance(c, ast.Call) and call_name(c) == "write_list"]
    wt = [c for c in ast.walk(w) if isinstance(c, ast.Call) and call_name(c) == "write_int"
          and dotted(c.args[0]) == "TERMINATION_INT"]
    if len(wl) != 1 or len(wt) != 1:
        raise AnalysisError("resolve_multimappers: expected one write_list and one TERMINATION_INT write")
    welem = wire._func_ref_op(wc, wl[0].args[2], True)
    # reader: sentinel-terminated sequence of counted lists
    loop = [s for s in walk_no_nested(r) if isinstance(s, ast.While) and "TERMINATION_INT" in src(s.test)]
    okshape = False
    relem = None
    if loop:
        wh = loop[0]
        t = wh.test
        if isinstance(t, ast.Compare) and isinstance(t.ops[0], ast.NotEq) and dotted(t.comparators[0]) == "TERMINATION_INT" \
                and isinstance(t.left, ast.Name):
            cnt = t.left.id
            inner_for = [s for s in wh.body if isinstance(s, ast.For)]
            reread = [s for s in wh.body if isinstance(s, ast.Assign) and isinstance(s.targets[0], ast.Name)
                      and s.targets[0].id == cnt and call_name(s.value) == "read_int"]
            blk_ = wh._parent.body if wh in getattr(wh._parent, "body", []) else []
            first = [s for s in blk_[:blk_.index(wh)] if isinstance(s, ast.Assign) and isinstance(s.targets[0], ast.Name)
                     and s.targets[0].id == cnt and call_name(s.value) == "read_int"] if blk_ else []
            if inner_for and reread and first and call_name(inner_for[0].iter) == "range" \
                    and src(inner_for[0].iter.args[0]) == cnt:
                des = [c for c in ast.walk(inner_for[0]) if isinstance(c, ast.Call) and call_name(c)
                       and call_name(c).endswith(".deserialize")]
                if len(des) == 1:
                    relem = ("obj", call_name(des[0]).split(".")[-2])
                    okshape = True
    if not okshape:
        # the same protocol with the library idiom:  for count in iter(lambda: read_int(f), TERMINATION_INT): count x deserialize
        for lp in (s_ for s_ in walk_no_nested(r) if isinstance(s_, ast.For) and isinstance(s_.target, ast.Name)):
            it = lp.iter
            if isinstance(it, ast.Call) and call_name(it) == "iter" and len(it.args) == 2 and dotted(it.args[1]) == "TERMINATION_INT" \
                    and isinstance(it.args[0], ast.Lambda) and call_name(it.args[0].body) == "read_int" and len(it.args[0].body.args) == 1:
                inner_for = [s_ for s_ in lp.body if isinstance(s_, ast.For)]
                if inner_for and call_name(inner_for[0].iter) == "range" and src(inner_for[0].iter.args[0]) == lp.target.id:
                    des = [c for c in ast.walk(inner_for[0]) if isinstance(c, ast.Call) and call_name(c) and call_name(c).endswith(".deserialize")]
                    if len(des) == 1:
                        relem = ("obj", call_name(des[0]).split(".")[-2])
                        okshape = True
    if not okshape:
        ctx.undecided("Z1", r, r._qualname, "the reader of <save>_multimappers_<chr> is not written as 'count; while count != TERMINATION_INT: count x "
                      "deserialize; count' nor as 'for count in iter(lambda: read_int(f), TERMINATION_INT)'")
    elif not wire.ops_equal(welem, relem):
        ctx.fail("Z1", wl[0], w._qualname + " / " + r._qualname, src(wl[0]),
                 "multimapper file elements written as %s but read as %s" % (wire.fmt(welem), wire.fmt(relem)))
    else:
        ctx.ok("Z1", "%s:%d" % (rel, wl[0].lineno), "multimapper file: lists of %s, terminated by TERMINATION_INT, both sides"
               % wire.fmt(welem))
    n += 1
    # TERMINATION_INT cannot be a list length written by write_list? (len < 2^32-1) - assumption
    ctx.assume("a multimapper list never has 2^32-1 entries (TERMINATION_INT used as in-band sentinel)")
    return n


def z1_pickle_state(prog, ctx, tag="Z1"):
    g = prog.func(ISO, "BasicReadAssignment.__getstate__")
    s = prog.func(ISO, "BasicReadAssignment.__setstate__")
    ret = [x for x in g.body if isinstance(x, ast.Return)]
    if not ret or not isinstance(ret[0].value, ast.Tuple):
        raise AnalysisError("__getstate__ does not return a tuple literal")
    out_fields = [wire._field_of_expr(e) for e in ret[0].value.elts]
    in_fields = {}
    for st in s.body:
        if isinstance(st, ast.Assign) and isinstance(st.targets[0], ast.Attribute):
            fld = st.targets[0].attr
            v = st.value
            subs = [x for x in ast.walk(v) if isinstance(x, ast.Subscript) and dotted(x.value) == "state"
                    and isinstance(x.slice, ast.Constant)]
            if isinstance(v, ast.Tuple):
                for i, e in enumerate(v.elts):
                    for x in ast.walk(e):
                        if isinstance(x, ast.Subscript) and dotted(x.value) == "state":
                            in_fields[x.slice.value] = "%s[%d]" % (fld, i)
            else:
                for x in subs:
                    in_fields[x.slice.value] = fld
    n = 0
    for i, f in enumerate(out_fields):
        if in_fields.get(i) != f:
            ctx.fail(tag, s, "BasicReadAssignment.__getstate__ / __setstate__", "state[%d]" % i,
                     "pickle state position %d holds %s but is restored into %s" % (i, f, in_fields.get(i)))
        else:
            ctx.ok(tag, "%s:%d" % (ISO, s.lineno), "pickle state[%d] = %s both ways" % (i, f))
        n += 1
    extra = set(in_fields) - set(range(len(out_fields)))
    if extra:
        ctx.fail(tag, s, "BasicReadAssignment.__setstate__", "state%s" % sorted(extra),
                 "__setstate__ reads positions the state tuple does not have")
    return n


# ---------------------------------------------------------------------------
# Z2
# ---------------------------------------------------------------------------

def _raw_writes(wc, func):
    """Primitive byte layout of a codec writer: list of ('uint', width, order) / ('bytes', encoding)."""
    out = []
    for n in walk_no_nested(func):
        if isinstance(n, ast.Call) and isinstance(n.func, ast.Attribute) and n.func.attr == "write":
            parts = []

            def flat(e):
                if isinstance(e, ast.BinOp) and isinstance(e.op, ast.Add):
                    flat(e.left)
                    flat(e.right)
                else:
                    parts.append(e)
            flat(n.args[0])
            seq = []
            for p in parts:
                if isinstance(p, ast.Call) and isinstance(p.func, ast.Attribute) and p.func.attr == "to_bytes":
                    w = p.args[0]
                    width = "param:" + w.id if isinstance(w, ast.Name) and w.id not in wc.consts else wc.width(w)
                    seq.append(("uint", width, dotted(p.args[1]) or src(p.args[1])))
                elif isinstance(p, ast.Call) and dotted(p.func) in ("bytearray", "bytes"):
                    enc = [k.value for k in p.keywords if k.arg == "encoding"]
                    seq.append(("bytes", dotted(enc[0]) if enc else (src(p.args[1]) if len(p.args) > 1 else None)))
                else:
                    seq.append(("?", src(p)))
            out.append((n, seq))
    return out


def _raw_reads(wc, func):
    out = []
    for n in walk_no_nested(func):
        if isinstance(n, ast.Call) and dotted(n.func) == "int.from_bytes":
            inner = n.args[0]
            if isinstance(inner, ast.Call) and isinstance(inner.func, ast.Attribute) and inner.func.attr == "read":
                w = inner.args[0]
                width = "param:" + w.id if isinstance(w, ast.Name) and w.id not in wc.consts else wc.width(w)
                out.append((n, ("uint", width, dotted(n.args[1]) or src(n.args[1]))))
        elif isinstance(n, ast.Call) and isinstance(n.func, ast.Attribute) and n.func.attr == "decode":
            enc = [k.value for k in n.keywords if k.arg == "encoding"]
            out.append((n, ("bytes", dotted(enc[0]) if enc else (src(n.args[0]) if n.args else None))))
    out.sort(key=lambda x: (x[0].lineno, x[0].col_offset))
    return out


def _default_of(func, param):
    args = func.args.args
    defaults = func.args.defaults
    off = len(args) - len(defaults)
    for i, a in enumerate(args):
        if a.arg == param and i >= off:
            return defaults[i - off]
    return None


def z2_codecs(prog, ctx, wc):
    m = prog.module(SER)
    pairs = 0
    writers = sorted(q for q in m.functions if q.startswith("write_"))
    for wq in writers:
        rq = "read_" + wq[len("write_"):]
        if rq not in m.functions:
            ctx.fail("Z2", m.functions[wq], wq, wq, "codec writer %s has no reader %s" % (wq, rq))
            continue
        pairs += 1
        wf, rf = m.functions[wq], m.functions[rq]
        # a codec built on sibling codecs is seen whole: its own primitives plus those of the codecs it delegates to (wherever the call stands)

        def closure(fn, prefix, raw, seen=()):
            out = list(raw(wc, fn))
            for c in walk_no_nested(fn):
                cn = call_name(c) if isinstance(c, ast.Call) else None
                if cn and cn.startswith(prefix) and cn in m.functions and cn not in seen and m.functions[cn] is not fn:
                    out += closure(m.functions[cn], prefix, raw, seen + (cn,))
            return out
        ww = closure(wf, "write_", _raw_writes)
        rr = closure(rf, "read_", _raw_reads)
        # resolve param widths through defaults
        def res(width, f):
            if isinstance(width, str) and width.startswith("param:"):
                d = _default_of(f, width[6:])
                return ("param-default", wc.width(d)) if d is not None else width
            return width
        wset = set()
        for _n, seq in ww:
            for p in seq:
                if p[0] == "uint":
                    wset.add(("uint", res(p[1], wf), p[2]))
                elif p[0] == "bytes":
                    wset.add(p)
        rset = set()
        for _n, p in rr:
            if p[0] == "uint":
                rset.add(("uint", res(p[1], rf), p[2]))
            else:
                rset.add(p)
        if wset != rset:
            ctx.fail("Z2", rf, "%s / %s" % (wq, rq), "%s vs %s" % (sorted(map(str, wset)), sorted(map(str, rset))),
                     "byte layout differs between %s and %s (widths, byte order or text encoding)" % (wq, rq))
        else:
            ctx.ok("Z2", "%s:%d" % (SER, wf.lineno), "%s/%s primitive layout %s" % (wq, rq, sorted(map(str, wset))),
                   nontrivial=bool(wset))
        # delegation symmetry: write_X calling write_Y  <->  read_X calling read_Y with the same extra args
        # (delegation to a plain codec is covered by the layout closure above; what remains to compare are the container codecs, whose
        # layout depends on the element codec they are given)
        HIGHER = ("list", "list_of_pairs", "dict")
        wdel = sorted((call_name(c)[6:], tuple(src(a) for a in c.args[2:]))
                      for c in walk_no_nested(wf) if isinstance(c, ast.Call) and (call_name(c) or "").startswith("write_")
                      and call_name(c)[6:] in HIGHER)
        rdel = sorted((call_name(c)[5:], tuple(src(a) for a in c.args[1:]))
                      for c in walk_no_nested(rf) if isinstance(c, ast.Call) and (call_name(c) or "").startswith("read_")
                      and call_name(c)[5:] in HIGHER)
        if wq not in ("write_dict",) and [d for d in wdel] != [d for d in rdel]:
            # loops calling func(val, outf) are not named write_*: only direct delegations compared
            ctx.fail("Z2", rf, "%s / %s" % (wq, rq), "%s vs %s" % (wdel, rdel),
                     "%s delegates to %s but %s delegates to %s" % (wq, wdel, rq, rdel))
        elif wdel:
            ctx.ok("Z2", "%s:%d" % (SER, wf.lineno), "%s/%s delegate symmetrically to %s" % (wq, rq, wdel))
    # write_int / read_int width defaults
    wd = _default_of(m.functions["write_int"], "bytes_len") if "write_int" in m.functions else None
    rd = _default_of(m.functions["read_int"], "bytes_len") if "read_int" in m.functions else None
    if wd is None or rd is None or wc.width(wd) != wc.width(rd):
        ctx.fail("Z2", m.functions.get("read_int", m.tree), "write_int / read_int", "bytes_len defaults",
                 "default widths differ")
    else:
        ctx.ok("Z2", SER, "write_int/read_int default width %d" % wc.width(wd))
    # sign-bit discipline of write_int_neg / read_int_neg
    wn, rn = prog.func(SER, "write_int_neg"), prog.func(SER, "read_int_neg")
    wshifts = {src(x) for x in ast.walk(wn) if isinstance(x, ast.BinOp) and isinstance(x.op, ast.LShift)}
    rshifts = {src(x) for x in ast.walk(rn) if isinstance(x, ast.BinOp) and isinstance(x.op, ast.LShift)}
    shared_flag = None
    if not wshifts and not rshifts:
        # the flag may come from a helper both sides call
        def helpers(fn_):
            return {call_name(c_) for c_ in ast.walk(fn_) if isinstance(c_, ast.Call) and call_name(c_) in m.functions
                    and any(isinstance(x, ast.BinOp) and isinstance(x.op, ast.LShift) for x in ast.walk(m.functions[call_name(c_)]))}
        common = helpers(wn) & helpers(rn)
        if len(common) == 1:
            shared_flag = m.functions[common.pop()]
    if shared_flag is not None:
        ctx.ok("Z2", "%s:%d" % (SER, shared_flag.lineno), "sign flag computed by %s() on both sides" % shared_flag.name)
    elif not wshifts and not rshifts:
        ctx.undecided("Z2", wn, "write_int_neg / read_int_neg", "no sign-flag shift expression found on either side")
    elif len(wshifts) != 1 or wshifts != rshifts:
        ctx.fail("Z2", rn, "write_int_neg / read_int_neg", "%s vs %s" % (sorted(wshifts), sorted(rshifts)),
                 "sign flag bit differs between writer and reader")
    else:
        width = wc.consts["LONG_INT_BYTES"]

        def arith(e, env):
            """integer arithmetic over constants, module constants and parameter defaults (nothing is executed)"""
            if isinstance(e, ast.Constant) and isinstance(e.value, int):
                return e.value
            if isinstance(e, ast.Name) and e.id in env:
                return env[e.id]
            if isinstance(e, ast.Name) and e.id in wc.consts:
                return wc.consts[e.id]
            if isinstance(e, ast.BinOp):
                l, r = arith(e.left, env), arith(e.right, env)
                if l is None or r is None:
                    return None
                if isinstance(e.op, ast.LShift):
                    return l << r
                if isinstance(e.op, ast.Mult):
                    return l * r
                if isinstance(e.op, ast.Add):
                    return l + r
                if isinstance(e.op, ast.Sub):
                    return l - r
            return None
        shift_node = next(x for x in ast.walk(wn) if isinstance(x, ast.BinOp) and isinstance(x.op, ast.LShift))
        penv = {}
        for fn_ in (wn,):
            ps_ = [a.arg for a in fn_.args.args]
            for pn_, d_ in zip(ps_[len(ps_) - len(fn_.args.defaults):], fn_.args.defaults):
                v_ = arith(d_, {})
                if v_ is not None:
                    penv[pn_] = v_
        bit = arith(shift_node, penv)
        if bit is None:
            ctx.undecided("Z2", wn, "write_int_neg", "the sign flag expression %s is not constant arithmetic" % list(wshifts)[0])
        elif bit != 1 << (8 * width - 1):
            ctx.fail("Z2", wn, "write_int_neg", list(wshifts)[0], "sign flag is not the top bit of the %d-byte word" % width)
        else:
            ctx.ok("Z2", "%s:%d" % (SER, wn.lineno), "sign flag = top bit of %d-byte word on both sides" % width)
    # reader must negate exactly when flag set
    has_neg = any(isinstance(x, ast.UnaryOp) and isinstance(x.op, ast.USub) for x in ast.walk(rn))
    has_abs = any(isinstance(x, ast.Call) and dotted(x.func) == "abs" for x in ast.walk(wn)) or \
        any(isinstance(x, ast.UnaryOp) and isinstance(x.op, ast.USub) for x in ast.walk(wn))
    if not (has_neg and has_abs):
        ctx.fail("Z2", rn, "write_int_neg / read_int_neg", "negation", "magnitude/negation not mirrored")
    else:
        ctx.ok("Z2", "%s:%d" % (SER, rn.lineno), "writer stores |v| with flag, reader negates when flag set")
    # bool array bit mapping
    wb, rb = prog.func(SER, "write_bool_array"), prog.func(SER, "read_bool_array")
    wbits = {src(x) for x in ast.walk(wb) if isinstance(x, ast.BinOp) and isinstance(x.op, ast.LShift)}
    rbits = {src(x) for x in ast.walk(rb) if isinstance(x, ast.BinOp) and isinstance(x.op, ast.LShift)}
    if wbits != rbits or len(wbits) != 1:
        ctx.fail("Z2", rb, "write_bool_array / read_bool_array", "%s vs %s" % (sorted(wbits), sorted(rbits)),
                 "bit position mapping differs")
    else:
        ctx.ok("Z2", "%s:%d" % (SER, wb.lineno), "bool i <-> bit %s on both sides" % list(wbits)[0])
    # None sentinel of write_string_or_none
    ws, rs = prog.func(SER, "write_string_or_none"), prog.func(SER, "read_string_or_none")
    wsent = {dotted(x.func.value) for x in ast.walk(ws) if isinstance(x, ast.Call) and isinstance(x.func, ast.Attribute)
             and x.func.attr == "to_bytes" and dotted(x.func.value) and dotted(x.func.value).isupper()}
    rsent = {dotted(c) for x in ast.walk(rs) if isinstance(x, ast.Compare) for c in x.comparators if dotted(c)}
    if not wsent or wsent != rsent:
        ctx.fail("Z2", rs, "write_string_or_none / read_string_or_none", "%s vs %s" % (wsent, rsent),
                 "None sentinel differs between writer and reader")
    else:
        ctx.ok("Z2", "%s:%d" % (SER, ws.lineno), "None sentinel %s on both sides" % sorted(wsent))
    # dict: per-tag writer and reader sequences
    wd_, rd_ = prog.func(SER, "write_dict"), prog.func(SER, "read_dict")

    def branches(func, writing):
        res = {}
        for node in ast.walk(func):
            if not isinstance(node, ast.If):
                continue
            body_calls = []
            for st in node.body:
                body_calls.extend(wire._calls_in_eval_order(st))
            tag = None
            if writing:
                for c in body_calls:
                    if isinstance(c.func, ast.Attribute) and c.func.attr == "to_bytes":
                        tag = dotted(c.func.value)
            else:
                if isinstance(node.test, ast.Compare):
                    for side in [node.test.left] + node.test.comparators:
                        d = dotted(side)
                        if d and d.startswith("DICT_"):
                            tag = d
            if tag is None:
                continue
            pre = "write_" if writing else "read_"
            ops = [call_name(c)[len(pre):] for c in body_calls if (call_name(c) or "").startswith(pre)]
            res[tag] = (ops, node)
        return res
    wbr, rbr = branches(wd_, True), branches(rd_, False)
    if not wbr or not rbr:
        # table-driven form: one module-level table of rows (..., DICT_*_TYPE tag, writer, reader) used by both functions
        ser_mod = prog.module(SER)
        rows = []
        for name_, v_ in ser_mod.assigns.items():
            if isinstance(v_, (ast.Tuple, ast.List)) and v_.elts and all(isinstance(r_, ast.Tuple) for r_ in v_.elts):
                for r_ in v_.elts:
                    tag = next((dotted(x) for x in r_.elts if (dotted(x) or "").startswith("DICT_")), None)
                    fns = [dotted(x) for x in r_.elts if isinstance(x, ast.Name) and ("write" in x.id or "read" in x.id)]
                    if tag and len(fns) == 2:
                        rows.append((name_, tag, fns, r_))
        used_both = rows and all(any(isinstance(n_, ast.Name) and n_.id == rows[0][0] for n_ in ast.walk(fn_)) or
                                 any(isinstance(n_, ast.Name) and n_.id in ser_mod.assigns and rows[0][0] in src(ser_mod.assigns[n_.id])
                                     for n_ in ast.walk(fn_)) for fn_ in (wd_, rd_))
        if not rows or not used_both:
            ctx.undecided("Z2", wd_, "write_dict / read_dict", "neither per-tag branches nor a shared (tag, writer, reader) table were found")
            return pairs
        for tname, tag, fns, node in rows:
            w_ = next((f_ for f_ in fns if "write" in f_), None)
            r_ = next((f_ for f_ in fns if "read" in f_), None)
            if w_ is None or r_ is None or w_.replace("write", "") != r_.replace("read", ""):
                ctx.fail("Z2", node, "write_dict / read_dict", "%s: %s" % (tag, fns), "the codec table pairs %s with %s for values tagged %s" % (w_, r_, tag))
            else:
                ctx.ok("Z2", "%s:%d" % (SER, node.lineno), "dict tag %s: table row pairs %s / %s" % (tag, w_, r_))
        if len({wc.consts.get(t_) for _n, t_, _f, _x in rows}) != len(rows):
            ctx.fail("Z2", wd_, "write_dict", "DICT_*_TYPE", "dict value tags are not distinct")
        return pairs
    tags_seen = set()
    for tag in sorted(set(wbr) | set(rbr)):
        if tag not in wbr or tag not in rbr:
            node = (wbr.get(tag) or rbr.get(tag))[1]
            ctx.fail("Z2", node, "write_dict / read_dict", tag, "value tag %s handled on one side only" % tag)
            continue
        wops, wnode = wbr[tag]
        rops, rnode = rbr[tag]
        if wops != rops:
            ctx.fail("Z2", rnode, "write_dict / read_dict", "%s: %s vs %s" % (tag, wops, rops),
                     "dict values tagged %s are written with %s but read with %s" % (tag, wops, rops))
        else:
            ctx.ok("Z2", "%s:%d" % (SER, rnode.lineno), "dict tag %s: %s both sides" % (tag, wops))
        tags_seen.add(wc.consts.get(tag))
    if len(tags_seen) != len(set(wbr) | set(rbr)):
        ctx.fail("Z2", wd_, "write_dict", "DICT_*_TYPE", "dict value tags are not distinct")
    # key codec
    wk = [call_name(c) for st in wd_.body for c in wire._calls_in_eval_order(st)
          if (call_name(c) or "").startswith("write_") and c.lineno < min(n.lineno for _o, n in wbr.values())]
    rk = [call_name(c) for st in rd_.body for c in wire._calls_in_eval_order(st)
          if (call_name(c) or "").startswith("read_") and c.lineno < min(n.lineno for _o, n in rbr.values())]
    if [x[6:] for x in wk] != [x[5:] for x in rk]:
        ctx.fail("Z2", rd_, "write_dict / read_dict", "%s vs %s" % (wk, rk), "dict header/key codecs differ")
    else:
        ctx.ok("Z2", "%s:%d" % (SER, rd_.lineno), "dict header and key codecs %s" % wk)
    return pairs


# ---------------------------------------------------------------------------
# Z3
# ---------------------------------------------------------------------------

def _init_fields(func, selfname="self"):
    out = {}
    for n in walk_no_nested(func):
        targets = []
        if isinstance(n, ast.Assign):
            targets = n.targets
        elif isinstance(n, ast.AugAssign):
            targets = [n.target]
        for t in targets:
            for x in ast.walk(t):
                if isinstance(x, ast.Attribute) and isinstance(x.value, ast.Name) and x.value.id == selfname \
                        and isinstance(x.ctx, ast.Store):
                    out.setdefault(x.attr, x)
    return out


def z3_fields(prog, ctx, wc, trees):
    n = 0
    for cls in ("MatchEvent", "IsoformMatch", "BasicReadAssignment", "ReadAssignment"):
        init = prog.func(ISO, cls + ".__init__")
        fields = _init_fields(init)
        written = set()
        opt_fields = [f_ for seg in wc.optional.get(cls + ".serialize", []) for f_, _n in seg["fields"]]
        for fld in [fld for _op, fld, _node in trees[cls]] + opt_fields:
            names = fld if isinstance(fld, tuple) else (fld,)
            for f in names:
                if f:
                    written.add(f.split("[")[0].split(".")[0])
        for f in sorted(fields):
            if f in written:
                ctx.ok("Z3", "%s:%d" % (ISO, fields[f].lineno), "%s.%s is serialised" % (cls, f))
            elif (cls, f) in DERIVED_FIELDS:
                ctx.ok("Z3", "%s:%d" % (ISO, fields[f].lineno), "%s.%s derived: %s" % (cls, f, DERIVED_FIELDS[(cls, f)]))
            else:
                ctx.fail("Z3", fields[f], cls + ".__init__", "self.%s" % f,
                         "%s.%s is set by the constructor but never written by %s.serialize (value is lost on round trip)"
                         % (cls, f, cls))
            n += 1
        # reader sets only constructor fields, and all of them
        des = prog.func(ISO, cls + ".deserialize")
        objname = None
        for st in des.body:
            if isinstance(st, ast.Assign) and isinstance(st.targets[0], ast.Name) and "__new__" in src(st.value):
                objname = st.targets[0].id
        if objname:
            rfields = _init_fields(des, objname)
            for f in sorted(set(fields) - set(rfields)):
                ctx.fail("Z3", des, cls + ".deserialize", "%s.%s" % (objname, f),
                         "constructor field %s.%s is not restored by deserialize (object built via __new__ lacks it)" % (cls, f))
            for f in sorted(set(rfields) - set(fields)):
                ctx.fail("Z3", rfields[f], cls + ".deserialize", "%s.%s" % (objname, f),
                         "deserialize sets %s.%s which the constructor does not define" % (cls, f))
            if not (set(fields) ^ set(rfields)):
                ctx.ok("Z3", "%s:%d" % (ISO, des.lineno), "%s.deserialize restores exactly the %d constructor fields" % (cls, len(fields)))
    # PolyAInfo fields all written
    pinit = prog.func("src/polya_finder.py", "PolyAInfo.__init__")
    pf = _init_fields(pinit)
    wr = {f.split(".", 1)[1] for _o, f, _n in trees["ReadAssignment"] if isinstance(f, str) and f.startswith("polya_info.")}
    for f in sorted(pf):
        if f in wr:
            ctx.ok("Z3", "src/polya_finder.py:%d" % pf[f].lineno, "PolyAInfo.%s is serialised" % f)
        else:
            ctx.fail("Z3", pf[f], "PolyAInfo.__init__", "self.%s" % f, "PolyAInfo.%s is never written by ReadAssignment.serialize" % f)
        n += 1
    return n


def z4_geneinfo(prog, ctx):
    """GeneInfo.deserialize derives the annotation tables from the database; every derivation that consults a serialised field
    must run after that field has been restored from the stream (or receive it through the constructor)."""
    GI = "src/gene_info.py"
    cls = prog.cls(GI, "GeneInfo")
    meths = prog.methods_of(cls, inherited=False)
    ser, des, init = meths["serialize"], meths["deserialize"], meths["__init__"]
    serialised = set()
    for c in walk_no_nested(ser):
        if isinstance(c, ast.Call) and (call_name(c) or "").startswith("write_") and c.args:
            for x in ast.walk(c.args[0]):
                if isinstance(x, ast.Attribute) and isinstance(x.value, ast.Name) and x.value.id == "self":
                    serialised.add(x.attr)
    reads_cache = {}

    def reads(name, stack=()):
        if name in reads_cache:
            return reads_cache[name]
        if name not in meths or name in stack:
            return set()
        out = set()
        f = meths[name]
        selfname = f.args.args[0].arg if f.args.args else "self"
        for x in walk_no_nested(f):
            if isinstance(x, ast.Attribute) and isinstance(x.value, ast.Name) and x.value.id == selfname and isinstance(x.ctx, ast.Load):
                if x.attr in serialised:
                    out.add(x.attr)
                elif x.attr in meths and isinstance(getattr(x, "_parent", None), ast.Call) and x._parent.func is x:
                    out |= reads(x.attr, stack + (name,))
        reads_cache[name] = out
        return out
    n = 0
    # constructor: which serialised fields it takes as parameters, and which derivations inside it consult them
    param_of = {}
    for st in walk_no_nested(init):
        if isinstance(st, ast.Assign) and isinstance(st.value, ast.Name) and isinstance(st.targets[0], ast.Attribute) \
                and dotted(st.targets[0]) == "self." + st.targets[0].attr and st.targets[0].attr in serialised:
            param_of[st.targets[0].attr] = st.value.id
    init_reads = set()
    for x in walk_no_nested(init):
        if isinstance(x, ast.Call) and isinstance(x.func, ast.Attribute) and dotted(x.func.value) == "self" and x.func.attr in meths:
            init_reads |= reads(x.func.attr)
    iparams = [a.arg for a in init.args.args][1:]
    obj = None
    restored = set()
    stmts = sorted([x for x in ast.walk(des) if isinstance(x, ast.stmt) and x is not des], key=lambda x: (x.lineno, x.col_offset))
    for st in stmts:
        if isinstance(st, ast.Assign) and isinstance(st.targets[0], ast.Name) and isinstance(st.value, ast.Call):
            cn = call_name(st.value) or ""
            if cn.endswith("__new__"):
                obj = st.targets[0].id
                restored = set()
            elif cn in ("cls", "GeneInfo"):
                obj = st.targets[0].id
                n += 1
                bound = set(iparams[:len(st.value.args)]) | {k.arg for k in st.value.keywords}
                missing = [f for f, pn in sorted(param_of.items()) if pn not in bound and f in init_reads]
                if missing:
                    ctx.fail("Z4", st, "GeneInfo.deserialize", src(st)[:90], "the object is rebuilt through the constructor without `%s`: the "
                             "constructor derives tables (%s) from self.%s, so they are computed with the default instead of the value "
                             "stored in the stream - assigning %s afterwards does not recompute them"
                             % (param_of[missing[0]], ", ".join(sorted(m_ for m_ in meths if missing[0] in reads(m_))[:3]), missing[0], missing[0]))
                else:
                    ctx.ok("Z4", "%s:%d" % (GI, st.lineno), "constructor call passes every serialised field its derivations consult")
                restored = set(param_of)        # set by the constructor
        if obj is None:
            continue
        for c in [x for x in ast.walk(st) if isinstance(x, ast.Call) and isinstance(x.func, ast.Attribute) and dotted(x.func.value) == obj
                  and x.func.attr in meths] if not isinstance(st, (ast.If, ast.For, ast.While, ast.With, ast.Try)) else []:
            n += 1
            need = reads(c.func.attr) - restored
            if need:
                ctx.fail("Z4", c, "GeneInfo.deserialize", src(c)[:80], "%s.%s() consults self.%s, which has not been restored from the "
                         "stream at this point of deserialize" % (obj, c.func.attr, sorted(need)[0]))
            else:
                ctx.ok("Z4", "%s:%d" % (GI, c.lineno), "%s() runs after the serialised fields it consults (%s) are restored"
                       % (c.func.attr, sorted(reads(c.func.attr)) or "none"), nontrivial=bool(reads(c.func.attr)))
        if isinstance(st, ast.Assign):
            for t in st.targets:
                if isinstance(t, ast.Attribute) and dotted(t.value) == obj:
                    restored.add(t.attr)
    ctx.floor("Z4", "derivation calls in GeneInfo.deserialize", n, 1)
    ctx.extra["geneinfo_serialised_fields"] = sorted(serialised)


def z5_reuse(prog, ctx):
    """A run restarted from saved assignments skips the collection stage: whatever that stage leaves in the driver object for the later
    stages must be rebuilt on the reuse branch (or unconditionally afterwards) from the saved files."""
    from ..engine import carried
    DSPM = "src/dataset_processor.py"
    cls = prog.cls(DSPM, "DatasetProcessor")
    ps = prog.func(DSPM, "DatasetProcessor.process_sample")
    lin = carried.Linearizer(prog, cls)
    n = 0
    for node in walk_no_nested(ps):
        if not (isinstance(node, ast.If) and "read_assignments" in src(node.test) and node.orelse):
            continue
        reuse, fresh = (node.body, node.orelse) if not (isinstance(node.test, ast.UnaryOp) and isinstance(node.test.op, ast.Not)) \
            else (node.orelse, node.body)
        stages = [c for s_ in fresh for c in ast.walk(s_) if isinstance(c, ast.Call) and (call_name(c) or "").startswith("self.")
                  and call_name(c)[5:] in lin.methods]
        if not stages:
            continue
        n += 1
        written = {}
        for c in stages:
            for loc, kind, uncond, fn, st in lin.run(call_name(c)[5:]):
                if kind in ("write", "rmw") and not loc.startswith("self.args."):
                    written.setdefault(loc, st)
        end = max(getattr(x, "end_lineno", x.lineno) for x in ast.walk(node) if hasattr(x, "lineno"))
        later_reads, restored_after = set(), set()
        for loc, kind, uncond, fn, st in lin.run("process_sample"):
            in_ps_after = fn is ps and st.lineno > end
            if not in_ps_after and not (fn is not ps and _called_after(ps, fn, end, lin)):
                continue
            if kind == "write" and uncond and fn is ps and loc not in later_reads:
                restored_after.add(loc)
            if kind in ("read", "rmw"):
                later_reads.add(loc)
        restored_here = set()
        for s_ in reuse:
            for a in ast.walk(s_):
                if isinstance(a, ast.Assign):
                    for t in a.targets:
                        d = dotted(t)
                        if d and d.startswith("self."):
                            restored_here.add(".".join(d.split(".")[:2]))
        from . import c10 as _c10
        _const_derived = _c10.constant_derived_locations(prog)
        for loc in sorted(written):
            if loc not in later_reads or loc in _const_derived:
                continue
            if loc in restored_here or loc in restored_after:
                ctx.ok("Z5", "%s:%d" % (DSPM, node.lineno), "%s (left by the skipped collection stage, read later) is rebuilt %s"
                       % (loc, "on the --read_assignments branch" if loc in restored_here else "unconditionally after the branch"))
            else:
                ctx.fail("Z5", node, ps._qualname, "if %s: ...  # %s not rebuilt" % (src(node.test), loc),
                         "%s is filled by the collection stage (%s) and read by the later stages, but the --read_assignments branch skips that "
                         "stage without rebuilding it from the saved files: the restarted run works with the freshly initialised value, its "
                         "outputs differ from those of the run that saved the assignments" % (loc, src(written[loc])[:70]))
    ctx.floor("Z5", "branches of process_sample that skip a stage under --read_assignments", n, 1)


def _called_after(ps, fn, line, lin):
    """fn (a method reached through self-calls) is entered from a call in process_sample below `line`"""
    for c in ast.walk(ps):
        if isinstance(c, ast.Call) and (call_name(c) or "").startswith("self.") and c.lineno > line:
            name = call_name(c)[5:]
            if name in lin.methods and (lin.methods[name] is fn or any(f_ is fn for _l, _k, _u, f_, _s in lin.run(name))):
                return True
    return False


def z6_optional(prog, ctx, wc):
    """Optional segments (a flag, then fields that are only written when the flag is set): whenever the writer's condition is false,
    every field of the segment must already equal the value the reader fills in for it."""
    import itertools
    n = 0
    for qual, segs in sorted(wc.optional.items()):
        for seg in segs:
            if seg["side"] != "writer":
                continue
            cls = qual.split(".")[0]
            rsegs = [x for x in wc.optional.get(cls + ".deserialize", []) if x["side"] == "reader"]
            n += 1
            if not rsegs:
                ctx.fail("Z6", seg["node"], qual, src(seg["node"].test)[:80], "fields are written only under a condition but %s.deserialize reads "
                         "them unconditionally" % cls)
                continue
            rseg = rsegs[0]
            defaults = rseg["defaults"]
            w_fields = sorted({(f_ or "?").split("[")[0].split(".")[0] for f_, _n in seg["fields"]})
            missing = [f_ for f_ in w_fields if f_ not in defaults]
            if missing:
                ctx.fail("Z6", rseg["node"], cls + ".deserialize", "else-branch of the optional segment",
                         "when the flag is not set the reader leaves %s without a value" % ", ".join(missing))
                continue
            # the writer's condition as a boolean function of the atoms  (self.<field> != <default>)
            f = prog.func(ISO, qual)
            cond = seg["cond"]
            meths = prog.methods_of(prog.cls(ISO, cls), inherited=True)
            for _ in range(4):
                if isinstance(cond, ast.Name):
                    defs = [a.value for a in walk_no_nested(f) if isinstance(a, ast.Assign) and len(a.targets) == 1 and src(a.targets[0]) == cond.id]
                    if len(defs) != 1:
                        break
                    cond = defs[0]
                elif isinstance(cond, ast.Call) and isinstance(cond.func, ast.Attribute) and src(cond.func.value) == "self" and cond.func.attr in meths \
                        and not cond.args:
                    body = [s_ for s_ in meths[cond.func.attr].body if not (isinstance(s_, ast.Expr) and isinstance(s_.value, ast.Constant))]
                    if len(body) == 1 and isinstance(body[0], ast.Return):
                        cond = body[0].value
                    else:
                        break
                else:
                    break
            atoms = {fld: "self.%s != %s" % (fld, src(defaults[fld])) for fld in w_fields}

            def ev(e, val):
                if isinstance(e, ast.BoolOp):
                    vs = [ev(v, val) for v in e.values]
                    return all(vs) if isinstance(e.op, ast.And) else any(vs)
                if isinstance(e, ast.UnaryOp) and isinstance(e.op, ast.Not):
                    return not ev(e.operand, val)
                if isinstance(e, ast.Compare) and len(e.ops) == 1:
                    l, r = src(e.left), src(e.comparators[0])
                    for fld in w_fields:
                        d = src(defaults[fld])
                        if {l, r} == {"self." + fld, d}:
                            if isinstance(e.ops[0], ast.NotEq):
                                return val[fld]
                            if isinstance(e.ops[0], ast.Eq):
                                return not val[fld]
                raise AnalysisError("%s: condition of the optional segment is not a boolean combination of <field> ==/!= <reader default>: %s"
                                    % (qual, src(e)[:80]))
            lossy = None
            for bits in itertools.product((False, True), repeat=len(w_fields)):
                val = dict(zip(w_fields, bits))
                if not ev(cond, val) and any(bits):
                    lossy = lossy or val
            if lossy:
                kept = [k for k, v in lossy.items() if v]
                ctx.fail("Z6", seg["node"], qual, "if %s: ..." % src(seg["cond"])[:60],
                         "the fields %s are written only when (%s); an object with %s set (different from what the reader fills in) and the other "
                         "field(s) unset makes the condition false, nothing is written, and %s.deserialize restores %s: the value is lost on the "
                         "round trip" % (", ".join(w_fields), src(cond)[:90], ", ".join(kept), cls,
                                          ", ".join("%s = %s" % (k, src(defaults[k])) for k in kept)))
            else:
                ctx.ok("Z6", "%s:%d" % (ISO, seg["node"].lineno), "%s: optional segment {%s} is skipped only when every field equals the reader's default"
                       % (qual, ", ".join(w_fields)))
    if n == 0:
        ctx.ok("Z6", ISO, "no optional (flag-controlled) segments in the object codecs", nontrivial=False)


def z7_saved_files(prog, ctx):
    """A run restarted from saved assignments only reads the files it was pointed to: nothing derived from args.read_assignments is ever
    passed to a deleting call."""
    from ..engine import taint
    DSPM = "src/dataset_processor.py"
    ps = prog.func(DSPM, "DatasetProcessor.process_sample")
    deleters = {"remove", "unlink", "rmtree", "clean_locks"}
    n = 0
    reported = set()
    for pth in flow.paths(ps):
        pol = {}
        feasible = True
        for t, p_ in pth.conds():
            for atom, ap in flow.conjuncts(t, p_):
                k = src(atom)
                if k in pol and pol[k] != ap:
                    feasible = False
                pol[k] = ap
        if not feasible:
            continue
        hits = []

        def look(st, env, hits=hits):
            for c in (x for x in ast.walk(st) if isinstance(x, ast.Call)):
                if (call_name(c) or "").split(".")[-1] in deleters:
                    for a in c.args:
                        if "saved-by-another-run" in taint.influence(a, env):
                            hits.append((c, st))
        taint.run(pth, {"self.args.read_assignments": {"saved-by-another-run"}}, on_stmt=look)
        n += 1
        for c, st in hits:
            if id(c) in reported:
                continue
            reported.add(id(c))
            ctx.fail("Z7", c, ps._qualname, src(c)[:90], "on the path {%s} this call deletes files whose names derive from args.read_assignments, "
                     "i.e. the assignments saved by the run that is being reused: after the restarted run they are gone and cannot be reused again"
                     % pth.describe()[:160])
    if not reported:
        ctx.ok("Z7", "%s:%d" % (DSPM, ps.lineno), "no deleting call on any of %d feasible paths of process_sample receives a name derived from "
               "args.read_assignments" % n)
    ctx.floor("Z7", "feasible paths of process_sample", n, 4)


def z8_no_partial_records(prog, ctx):
    """A record is written field by field: an exception in the middle leaves a partial record in the stream.  No writer of the
    intermediate files may catch exceptions around a serialize() call and carry on."""
    n = 0
    for m, q, f in prog.all_functions():
        if m.rel not in ("src/assignment_io.py", "src/dataset_processor.py"):
            continue
        for t in walk_no_nested(f):
            if not isinstance(t, ast.Try):
                continue
            calls = [c for st in t.body for c in ast.walk(st) if isinstance(c, ast.Call) and isinstance(c.func, ast.Attribute)
                     and (c.func.attr == "serialize" or (call_name(c) or "").startswith("write_"))]
            if not calls:
                continue
            n += 1
            swallowing = [h for h in t.handlers if not flow.always_exits(h.body) or any(isinstance(x, ast.Continue) for x in ast.walk(ast.Module(body=h.body, type_ignores=[])))]
            swallowing = [h for h in swallowing if not any(isinstance(x, ast.Raise) for x in ast.walk(ast.Module(body=h.body, type_ignores=[])))]
            if swallowing:
                ctx.fail("Z8", swallowing[0], q, "except %s: ..." % (src(swallowing[0].type) if swallowing[0].type is not None else ""),
                         "an exception raised inside %s is caught and the writer carries on: the record's tag and the fields written before the "
                         "failing one are already in the file, so every following record is read out of alignment by both loaders"
                         % src(calls[0])[:50])
            else:
                ctx.ok("Z8", "%s:%d" % (m.rel, t.lineno), "%s: exceptions around %s are re-raised / leave the function" % (q, src(calls[0])[:40]))
    ctx.ok("Z8", "src/assignment_io.py", "%d try-blocks around serialisation calls, none swallowing" % n, nontrivial=False)


def run(prog, ctx):
    ctx.rule("Z1", "writer and reader of every codec pair reduce to the same wire-type tree, position by position, and "
                   "(where derivable) the same field name; the abridged reader consumes exactly ReadAssignment's tree; "
                   "frame tags, widths, terminators and side files (info, multimappers, pickle state) agree")
    ctx.rule("Z2", "inside serialization.py every write_X/read_X pair has the same primitive layout (width, byte order, "
                   "encoding, sentinels, sign bit, bit mapping) and write_dict/read_dict use matching codecs per value tag")
    ctx.rule("Z3", "every attribute the constructors of ReadAssignment/IsoformMatch/MatchEvent/BasicReadAssignment/PolyAInfo "
                   "set is written by serialize or listed in the derived-field table; deserialize restores exactly those fields")
    wc = wire.WireCtx(prog)
    n_obj, trees = z1_objects(prog, ctx, wc)
    n_fr = z1_framing(prog, ctx, wc)
    n_side = z1_side_files(prog, ctx, wc)
    n_pk = z1_pickle_state(prog, ctx)
    pairs = z2_codecs(prog, ctx, wc)
    z3_fields(prog, ctx, wc, trees)
    ctx.rule("Z10", "rule R7 of C07 run for C15: an intermediate stream that is opened in append mode is truncated by its owner / by the same module "
                    "(a reader that stops at the first end-of-stream marker must find THIS run's records there)")
    from . import c07 as _c07z
    _c07z.r7(prog, ctx, tag="Z10", why="records of an earlier run into the same folder stay in front of this run's records; the loader stops at "
             "the first end-of-stream marker and applies the earlier run's content")
    ctx.rule("Z8", "no try-block of the writers of the intermediate files catches an exception around a serialize() / write_*() call without "
                   "re-raising (a partial record would shift everything behind it)")
    z8_no_partial_records(prog, ctx)
    ctx.rule("Z9", "the abridged record takes the same fields from the same wire positions as the full one and as the in-memory constructor "
                   "(rule M4 of C08: attribute sets, start/end from the first / last original exon, identical summary loops)")
    from . import c08 as _c08
    _c08.m4(prog, ctx, tag="Z9")
    ctx.rule("Z7", "path-wise influence propagation in process_sample: no argument of a deleting call (os.remove, clean_locks, ...) depends on "
                   "args.read_assignments on a feasible path (paths testing the same atom both ways are dropped)")
    z7_saved_files(prog, ctx)
    ctx.rule("Z6", "optional segments of an object codec (flag bit, then fields written only when it is set): the reader gives every such field a "
                   "default in its else-branch, and over all truth assignments of the atoms `field != default` the writer's condition "
                   "(helpers inlined) is false only when all atoms are false")
    z6_optional(prog, ctx, wc)
    ctx.rule("Z4", "GeneInfo.deserialize: every derivation (obj.set_*() or the constructor) that consults a serialised field "
                   "(transitively through self-calls) runs after that field is restored / receives it as constructor argument")
    z4_geneinfo(prog, ctx)
    ctx.rule("Z5", "restart from saved assignments: every DatasetProcessor location that the skipped collection stage writes and a later stage "
                   "reads is assigned on the --read_assignments branch of process_sample or unconditionally right after it (self-calls inlined)")
    z5_reuse(prog, ctx)
    ctx.floor("Z1", "object codec pairs", n_obj, 6)
    ctx.floor("Z2", "write_/read_ codec pairs", pairs, 9)
    ctx.floor("Z1", "ReadAssignment wire positions", len(trees["ReadAssignment"]), 20)
    ctx.extra["exhaustive"] = True
    ctx.extra["wire_trees"] = {k: [wire.fmt(o) + ":" + str(f) for o, f, _n in v] for k, v in trees.items()}
    ctx.assume("value ranges are not decided: strings < 65535 bytes, |ints| < 2^31, ASCII lengths")
    ctx.assume("codec helpers are called by their own names (no aliasing of write_*/read_* functions)")
