"""C13 - exon/intron inclusion/exclusion counts (structural part).

F1 index-space agreement: a profile vector and the feature table it is indexed with come from the same feature list
   (exon / intron / split-exon), along the whole chain constructor -> combined profile -> assignment -> counter
F2 value mapping: 1 -> include only, -1 -> exclude only, same feature index, columns in header order
"""
import ast
import re

from ..engine.program import AnalysisError, dotted, src, walk_no_nested, call_name, enclosing_stmt
from ..engine import flow

LRC = "src/long_read_counter.py"


def stem(name):
    if name is None:
        return None
    n = name.lower()
    if "split_exon" in n:
        return "split_exon"
    if "intron" in n or "junction" in n:
        return "intron"
    if "exon" in n:
        return "exon"
    return None


def same(ctx, rule, node, fq, what, stems, detail):
    ss = [s for s in stems]
    known = {x for x in ss if x is not None}
    if len(known) <= 1 and None in ss:
        # an identifier that names no feature kind (after a rename / a generic helper): nothing contradicts, nothing is confirmed
        ctx.undecided(rule, node, fq, "%s: the feature kind of some operand is not recognisable from its name %s (%s)" % (what, ss, detail))
        return False
    if len(known) != 1:
        ctx.fail(rule, node, fq, what, "%s mixes feature kinds %s: a profile built over one feature list is indexed "
                 "against another list (%s)" % (what, ss, detail))
        return False
    ctx.ok(rule, "%s:%d" % (node._module.rel, node.lineno), "%s: all %s (%s)" % (what, ss[0], detail))
    return True


def f1(prog, ctx):
    n = 0
    LRP = "src/long_read_profiles.py"
    # 1. constructors wired to the matching feature list
    init = prog.func(LRP, "CombinedProfileConstructor.__init__")
    ctor_attr = {}
    for st in walk_no_nested(init):
        if isinstance(st, ast.Assign) and (dotted(st.targets[0]) or "").endswith("_profile_constructor") \
                and isinstance(st.value, ast.Call) and st.value.args:
            a = dotted(st.targets[0])
            feat = dotted(st.value.args[0])
            same(ctx, "F1", st, init._qualname, a + " = ...(" + str(feat) + ")", [stem(a), stem(feat)],
                 "constructor attribute vs gene_info.*_profiles.features")
            ctor_attr[a] = stem(a)
            n += 1
    ctx.floor("F1", "profile constructors", len(ctor_attr), 3)
    # 2. construct_profiles: local <- matching constructor & method; positional wiring into CombinedReadProfiles
    cp = prog.func(LRP, "CombinedProfileConstructor.construct_profiles")
    for st in walk_no_nested(cp):
        if isinstance(st, ast.Assign) and isinstance(st.targets[0], ast.Name) and isinstance(st.value, ast.Call) \
                and isinstance(st.value.func, ast.Attribute) and "_profile_constructor" in src(st.value.func):
            recv = dotted(st.value.func.value)
            meth = st.value.func.attr
            stems = [stem(st.targets[0].id), stem(recv)]
            if stem(meth) is not None:
                stems.append(stem(meth))
            same(ctx, "F1", st, cp._qualname, "%s = %s.%s(...)" % (st.targets[0].id, recv, meth), stems,
                 "local, constructor and method name")
            n += 1
    crp_init = prog.func(LRP, "CombinedReadProfiles.__init__")
    params = [a.arg for a in crp_init.args.args[1:]]
    for c in walk_no_nested(cp):
        if isinstance(c, ast.Call) and call_name(c) == "CombinedReadProfiles":
            for i, a in enumerate(c.args):
                if i < len(params) and stem(params[i]):
                    same(ctx, "F1", c, cp._qualname, "CombinedReadProfiles arg #%d %s -> %s" % (i, src(a), params[i]),
                         [stem(src(a)), stem(params[i])], "positional argument vs parameter")
                    n += 1
            for k in c.keywords:
                if stem(k.arg):
                    same(ctx, "F1", c, cp._qualname, "CombinedReadProfiles %s=%s" % (k.arg, src(k.value)),
                         [stem(src(k.value)), stem(k.arg)], "keyword argument vs parameter")
    for st in walk_no_nested(crp_init):
        if isinstance(st, ast.Assign) and stem(dotted(st.targets[0]) or "") and isinstance(st.value, ast.Name):
            same(ctx, "F1", st, crp_init._qualname, src(st), [stem(dotted(st.targets[0])), stem(st.value.id)], "field vs parameter")
            n += 1
    # 3. assignment fields
    pg = prog.func("src/alignment_processor.py", "AlignmentCollector.process_genic")
    cnt = 0
    for st in walk_no_nested(pg):
        if isinstance(st, ast.Assign) and (dotted(st.targets[0]) or "").endswith("_gene_profile"):
            same(ctx, "F1", st, pg._qualname, src(st), [stem(dotted(st.targets[0])), stem(src(st.value))],
                 "read_assignment field vs combined-profile field")
            if not src(st.value).endswith(".gene_profile"):
                ctx.fail("F1", st, pg._qualname, src(st), "the gene-side profile (indexed by gene features) must be stored, not the read-side one")
            cnt += 1
            n += 1
    ctx.floor("F1", "profile fields copied to the assignment", cnt, 2)
    # 4. GeneInfo property maps
    gi = prog.module("src/gene_info.py")
    cnt = 0
    for q, f in sorted(gi.functions.items()):
        for st in walk_no_nested(f):
            if isinstance(st, ast.Assign) and (dotted(st.targets[0]) or "").endswith("_property_map") \
                    and isinstance(st.value, ast.Call) and (call_name(st.value) or "").endswith("set_feature_properties"):
                args = [src(a) for a in st.value.args]
                same(ctx, "F1", st, q, src(st), [stem(dotted(st.targets[0]))] + [stem(a) for a in args],
                     "property map, isoform->feature map and profile object")
                cnt += 1
                n += 1
    ctx.floor("F1", "set_feature_properties call sites", cnt, 2)
    # 5. set_feature_properties emits one FeatureInfo per feature, in order
    sfp = prog.func("src/gene_info.py", "GeneInfo.set_feature_properties")
    loops = [l for l in walk_no_nested(sfp) if isinstance(l, ast.For) and src(l.iter) == "feature_profiles.features"
             and any(isinstance(c, ast.Call) and src(c.func) == "feature_properties.append" for c in ast.walk(l))]
    if len(loops) != 1:
        ctx.fail("F1", sfp, sfp._qualname, "feature loop", "no single loop over feature_profiles.features building feature_properties")
    else:
        l = loops[0]
        appends = [c for c in ast.walk(l) if isinstance(c, ast.Call) and src(c.func) == "feature_properties.append"]
        jumps = [x for x in ast.walk(l) if isinstance(x, (ast.Continue, ast.Break, ast.Return))]
        direct = [st for st in l.body if isinstance(st, ast.Expr) and st.value in appends]
        if len(appends) != 1 or len(direct) != 1 or jumps:
            ctx.fail("F1", l, sfp._qualname, "for feature in feature_profiles.features",
                     "the feature table must get exactly one entry per feature, unconditionally and in order "
                     "(appends=%d, unconditional=%d, jumps=%d): otherwise profile index i names another feature"
                     % (len(appends), len(direct), len(jumps)))
        else:
            fi = appends[0].args[0]
            coords = [src(a) for a in fi.args[1:3]] if isinstance(fi, ast.Call) else []
            tgt = src(l.target)
            if coords != ["%s[0]" % tgt, "%s[1]" % tgt]:
                ctx.fail("F1", appends[0], sfp._qualname, src(appends[0]), "FeatureInfo coordinates are not the loop feature's own (%s)" % coords)
            else:
                ctx.ok("F1", "src/gene_info.py:%d" % l.lineno, "one FeatureInfo(feature[0], feature[1]) per feature, in list order")
        n += 1
    # 6. counters pair profile and table of the same kind, matching the class name
    LRC = "src/long_read_counter.py"
    cnt = 0
    for cls in ("ExonCounter", "IntronCounter"):
        f = prog.func(LRC, cls + ".add_read_info")
        calls = [c for c in walk_no_nested(f) if isinstance(c, ast.Call) and (call_name(c) or "").endswith("add_read_info_from_profile")]
        if len(calls) != 1:
            raise AnalysisError("%s.add_read_info: expected one add_read_info_from_profile(profile, table, ...)" % cls)
        c = calls[0]
        from ..engine import argswap
        bound = argswap.bind_args(c, prog.func(LRC, "ProfileFeatureCounter.add_read_info_from_profile"), bound_method=True)
        pa, ta = _profile_table_params(prog)
        if pa not in bound or ta not in bound:
            raise AnalysisError("%s.add_read_info: profile / table argument of add_read_info_from_profile not found" % cls)
        same(ctx, "F1", c, f._qualname, "%s(%s, %s)" % (call_name(c), src(bound[pa]), src(bound[ta])),
             [stem(cls), stem(src(bound[pa])), stem(src(bound[ta]))], "counter class, profile and feature table")
        cnt += 1
        n += 1
    # 7. which counter writes which file
    agg = prog.func("src/dataset_processor.py", "ReadAssignmentAggregator.__init__")
    for c in walk_no_nested(agg):
        if isinstance(c, ast.Call) and call_name(c) in ("ExonCounter", "IntronCounter") and c.args:
            same(ctx, "F1", c, agg._qualname, src(c), [stem(call_name(c)), stem(src(c.args[0]))], "counter class vs output file")
            n += 1
    return n


def _profile_table_params(prog):
    """(profile parameter, table parameter) of add_read_info_from_profile, by what the body does with them:
    the profile is the one whose elements are compared with 1 / -1, the table the one whose elements give `.id`."""
    f = prog.func_inlined("src/long_read_counter.py", "ProfileFeatureCounter.add_read_info_from_profile")
    params = [a.arg for a in f.args.args][1:]
    prof = table = None
    for n in walk_no_nested(f):
        if isinstance(n, ast.Compare) and isinstance(n.left, ast.Subscript) and isinstance(n.left.value, ast.Name) and n.left.value.id in params \
                and src(n.comparators[0]) in ("1", "-1"):
            prof = n.left.value.id
        if isinstance(n, ast.Attribute) and n.attr == "id" and isinstance(n.value, ast.Subscript) and isinstance(n.value.value, ast.Name) \
                and n.value.value.id in params:
            table = n.value.value.id
    if prof is None or table is None:
        raise AnalysisError("add_read_info_from_profile: profile / table parameters not identified")
    return prof, table


def f2(prog, ctx):
    LRC = "src/long_read_counter.py"
    f = prog.func_inlined(LRC, "ProfileFeatureCounter.add_read_info_from_profile")
    loops = [l for l in walk_no_nested(f) if isinstance(l, ast.For)]
    if len(loops) != 1:
        raise AnalysisError("add_read_info_from_profile: expected one loop over the profile")
    loop = loops[0]
    idx = src(loop.target)
    prof, table = _profile_table_params(prog)
    incs = [c for c in walk_no_nested(f) if isinstance(c, ast.Call) and isinstance(c.func, ast.Attribute) and c.func.attr == "inc"]
    mapping = {}
    for c in incs:
        st = c
        while not isinstance(st, ast.stmt):
            st = st._parent
        facts = flow.guard_facts(st, stop=f)
        vals = []
        for t, pol in facts:
            if isinstance(t, ast.Compare) and isinstance(t.ops[0], ast.Eq) and src(t.left) == "%s[%s]" % (prof, idx) and pol:
                v = t.comparators[0]
                try:
                    vals.append(ast.literal_eval(v))
                except Exception:
                    vals.append(src(v))
        recv = c.func.value
        if isinstance(recv, ast.Name):
            defs = [s_ for s_ in walk_no_nested(f) if isinstance(s_, ast.Assign) and src(s_.targets[0]) == recv.id
                    and s_.lineno < c.lineno]
            # nearest preceding definition in the same block
            same_blk = [s_ for s_ in defs if s_._parent is st._parent]
            if same_blk:
                recv = same_blk[-1].value
        rtxt = src(recv)
        counter = "inclusion" if "inclusion" in rtxt else ("exclusion" if "exclusion" in rtxt else rtxt)
        if not any(n is loop for n in flow.enclosing_loops(st)):
            ctx.fail("F2", c, f._qualname, src(c), "a count is added outside the per-feature loop")
        mapping.setdefault(counter, []).append((tuple(vals), c))
        # the feature id comes from the same index of the table
        kexpr = recv.slice if isinstance(recv, ast.Subscript) else None
        if isinstance(kexpr, ast.Name):
            blk_ = st._parent.body if st in getattr(st._parent, "body", []) else getattr(st._parent, "orelse", [])
            kd = [s for s in blk_ if isinstance(s, ast.Assign) and src(s.targets[0]) == kexpr.id and s.lineno <= st.lineno]
            kexpr = kd[-1].value if kd else kexpr
        if kexpr is None or src(kexpr) != "%s[%s].id" % (table, idx):
            ctx.fail("F2", c, f._qualname, src(c), "feature id is not %s[%s].id (same index as the profile value)" % (table, idx))
    want = {"inclusion": (1,), "exclusion": (-1,)}
    for counter, w in want.items():
        got = mapping.get(counter, [])
        if len(got) != 1 or got[0][0] != w:
            node = got[0][1] if got else f
            ctx.fail("F2", node, f._qualname, "%s counter fed by profile values %s" % (counter, [g[0] for g in got]),
                     "the %s counter must be incremented exactly for profile value %d (found %s)" % (counter, w[0], [g[0] for g in got]))
        else:
            ctx.ok("F2", "%s:%d" % (LRC, got[0][1].lineno), "profile value %d -> %s counter only, feature %s[%s].id" % (w[0], counter, table, idx))
    extra = set(mapping) - set(want)
    for e in extra:
        ctx.fail("F2", mapping[e][0][1], f._qualname, src(mapping[e][0][1]), "unexpected counter %s incremented from the profile" % e)
    # dump: columns in header order
    d = prog.func(LRC, "ProfileFeatureCounter.dump")
    t = src(d)
    hdr = [c for c in walk_no_nested(d) if isinstance(c, ast.Constant) and isinstance(c.value, str) and "include_counts" in c.value]
    okh = hdr and hdr[0].value.index("include_counts") < hdr[0].value.index("exclude_counts")
    # the two numbers of a row, followed through the locals they were taken into
    from ..engine.dataflow import single_def_env
    from ..engine import symexec as _sx
    env_d = single_def_env(d)
    wr = [c for c in walk_no_nested(d) if isinstance(c, ast.Call) and isinstance(c.func, ast.Attribute) and c.func.attr == "write"
          and "%d\\t%d" in src(c)]
    okv = okw = False
    if wr and isinstance(wr[0].args[0], ast.BinOp) and isinstance(wr[0].args[0].right, ast.Tuple) and len(wr[0].args[0].right.elts) >= 2:
        first, second = (src(_sx.subst(_sx.subst(e_, env_d), env_d)) for e_ in wr[0].args[0].right.elts[-2:])
        okw = True
        okv = "inclusion" in first and "exclusion" not in first and "exclusion" in second and "inclusion" not in second
        if not okv and not any(k_ in first + second for k_ in ("inclusion", "exclusion")):
            ctx.undecided("F2", wr[0], d._qualname, "the two counts of a row (%s, %s) cannot be traced to the inclusion / exclusion counters"
                          % (first[:40], second[:40]))
            okv = okw = okh = True          # (reported as undecided above)
    if not (okh and okv and okw):
        ctx.fail("F2", d, d._qualname, "include/exclude columns", "include/exclude columns are not written in header order from their own counters")
    else:
        ctx.ok("F2", "%s:%d" % (LRC, d.lineno), "dump writes include then exclude, from the inclusion / exclusion counters")


def _iter_base(e, env=None, depth=0):
    """what a loop ranges over, with sorted()/list()/.keys()/.items()/.values() and single-definition locals peeled off"""
    while depth < 6:
        depth += 1
        if isinstance(e, ast.Call) and isinstance(e.func, ast.Name) and e.func.id in ("sorted", "list", "tuple", "set", "enumerate") and e.args:
            e = e.args[0]
        elif isinstance(e, ast.Call) and isinstance(e.func, ast.Attribute) and e.func.attr in ("keys", "items", "values") and not e.args:
            e = e.func.value
        elif isinstance(e, ast.Name) and env and e.id in env:
            e = env[e.id]
        elif isinstance(e, (ast.ListComp, ast.GeneratorExp)) and len(e.generators) == 1 and not e.generators[0].ifs:
            e = e.generators[0].iter          # one element per element of the source: the same range
        else:
            break
    return src(e)


def f3(prog, ctx):
    """dump() visits every (feature, group) cell of the two counters."""
    LRC = "src/long_read_counter.py"
    d = prog.func(LRC, "ProfileFeatureCounter.dump")
    from ..engine.dataflow import single_def_env
    env = single_def_env(d)
    loops = [l for l in walk_no_nested(d) if isinstance(l, ast.For)]
    bases = [_iter_base(l.iter, env) for l in loops]
    if "self.feature_name_dict" in bases:
        ctx.ok("F3", "%s:%d" % (LRC, d.lineno), "dump iterates every registered feature")
    elif any(re.match(r"^self\.\w*(inclusion|exclusion)\w*$", b_) for b_ in bases):
        ctx.fail("F3", d, d._qualname, "loops over %s" % bases, "dump() iterates the features of ONE of the two counters instead of every registered "
                 "feature: a feature with only exclusions (or only inclusions) is skipped, so grouped counts no longer add up")
    else:
        ctx.undecided("F3", d, d._qualname, "no loop over the feature registry (feature_name_dict) found; loops over %s" % bases)
    if "self.group_numeric_ids" in bases:
        ctx.ok("F3", "%s:%d" % (LRC, d.lineno), "dump iterates every group of group_numeric_ids")
    else:
        # groups taken from the cells themselves: both counters have to contribute (union), not whichever is non-empty
        def expand(e, depth=0):
            out = [e]
            if depth < 5:
                for x in ast.walk(e):
                    if isinstance(x, ast.Name) and x.id in env:
                        out += expand(env[x.id], depth + 1)
            return out
        from_cells = None
        for l in loops:
            exprs = expand(l.iter)
            txt = " ".join(src(x) for x in exprs)
            if re.search(r"self\.\w*(inclusion|exclusion)\w*", txt):
                from_cells = (l, exprs, txt)
        if from_cells is not None:
            l, exprs, txt = from_cells
            has_incl, has_excl = "inclusion" in txt, "exclusion" in txt
            either = any(isinstance(x, ast.BoolOp) and isinstance(x.op, ast.Or) for e in exprs for x in ast.walk(e))
            if not (has_incl and has_excl) or either:
                ctx.fail("F3", l, d._qualname, "groups from %s" % src(l.iter)[:70], "the groups visited for a feature are taken from %s: a group "
                         "whose reads only exclude (or only include) the feature is skipped, so grouped counts no longer add up to the "
                         "ungrouped ones" % ("whichever of the two counters is non-empty" if either else "one of the two counters only"))
            else:
                ctx.undecided("F3", l, d._qualname, "groups are taken from both counters in a way the rule cannot follow: %s" % src(l.iter)[:80])
        else:
            ctx.undecided("F3", d, d._qualname, "no loop over the groups of group_numeric_ids found; loops over %s" % bases)
    wr = [c for c in walk_no_nested(d) if isinstance(c, ast.Call) and isinstance(c.func, ast.Attribute) and c.func.attr == "write"
          and "%d" in src(c)]
    if len(wr) == 1 and isinstance(wr[0].args[0], ast.BinOp) and isinstance(wr[0].args[0].right, ast.Tuple) and len(wr[0].args[0].right.elts) >= 2:
        counts = [src(e) for e in wr[0].args[0].right.elts[-2:]]
        st = enclosing_stmt(wr[0])
        facts = [t for t, pol in flow.guard_facts(st, stop=d) if pol]
        one_sided = [t for t in facts if sum(1 for cnt in counts if cnt in {src(x) for x in ast.walk(t)}) == 1]
        both = [t for t in facts if all(cnt in {src(x) for x in ast.walk(t)} for cnt in counts)]
        if one_sided:
            ctx.fail("F3", wr[0], d._qualname, "if %s" % src(one_sided[0]), "a row is written only when %s: a (feature, group) cell in which only the "
                     "other count is positive is dropped (the row must be written when the include OR the exclude count is positive)"
                     % src(one_sided[0]))
        elif len(both) == 1 and isinstance(both[0], ast.BoolOp) and isinstance(both[0].op, ast.Or) and all(
                isinstance(v, ast.Compare) and isinstance(v.ops[0], ast.Gt) and src(v.comparators[0]) == "0" for v in both[0].values):
            ctx.ok("F3", "%s:%d" % (LRC, wr[0].lineno), "row written iff include or exclude count is positive")
        elif both and isinstance(both[0], ast.BoolOp) and isinstance(both[0].op, ast.And):
            ctx.fail("F3", wr[0], d._qualname, "if %s" % src(both[0]), "a row is written only when BOTH counts satisfy a condition: cells with only "
                     "inclusions or only exclusions are dropped")
        else:
            ctx.undecided("F3", wr[0], d._qualname, "the condition under which a row is written (%s) is not a test of the two counts"
                          % [src(t) for t in facts])
    else:
        ctx.undecided("F3", d, d._qualname, "the row-writing call of dump() not found")
    # every feature counted on a path through the profile loop is registered in the feature registry on that path
    a = prog.func_inlined(LRC, "ProfileFeatureCounter.add_read_info_from_profile")
    n = 0
    for lp in [l for l in walk_no_nested(a) if isinstance(l, ast.For) and not flow.enclosing_loops(l)]:
        for pth in flow.block_paths(lp.body, "profile loop"):
            counted = registered = None
            for ev in pth.events:
                if ev[0] == "cond":
                    for t, pol in flow.conjuncts(ev[1], ev[2]):
                        if isinstance(t, ast.Compare) and len(t.ops) == 1 and src(t.comparators[0]) == "self.feature_name_dict" \
                                and ((isinstance(t.ops[0], ast.In) and pol) or (isinstance(t.ops[0], ast.NotIn) and not pol)):
                            registered = t
                elif ev[0] == "stmt":
                    st = ev[1]
                    if isinstance(st, ast.Assign) and isinstance(st.targets[0], ast.Subscript) and src(st.targets[0].value) == "self.feature_name_dict":
                        registered = st
                    inc = isinstance(st, ast.Expr) and isinstance(st.value, ast.Call) and isinstance(st.value.func, ast.Attribute) \
                        and st.value.func.attr == "inc" and src(st.value.func.value).startswith("self.")
                    aug = isinstance(st, ast.AugAssign) and isinstance(st.target, ast.Subscript)
                    if inc or aug:
                        counted = st
            if counted is not None:
                n += 1
                if registered is None:
                    ctx.fail("F3", counted, a._qualname, src(counted)[:80], "on the path [%s] a feature is counted but not registered in "
                             "feature_name_dict: dump() iterates the registry, so the count is never printed" % pth.describe()[:100])
                else:
                    ctx.ok("F3", "%s:%d" % (LRC, counted.lineno), "counted feature is registered on the same path")
    if n == 0:
        ctx.undecided("F3", a, a._qualname, "no counting path found in the profile loop")


def f4(prog, ctx):
    """The windows inside which a feature counts as 'spanned' are mirror-symmetric and use inner block borders for exons."""
    from ..engine import reflect
    LRP = "src/long_read_profiles.py"
    n = 0
    for q, want_inner in (("OverlappingFeaturesProfileConstructor.construct_exon_profile", True),
                          ("OverlappingFeaturesProfileConstructor.construct_intron_profile", False)):
        f = prog.func(LRP, q)
        defs = [s_ for s_ in walk_no_nested(f) if isinstance(s_, ast.Assign) and src(s_.targets[0]) == "mapped_region"]
        if len(defs) != 1 or not isinstance(defs[0].value, ast.Tuple) or len(defs[0].value.elts) != 2:
            raise AnalysisError("%s: mapped_region tuple not found" % q)
        a, b = defs[0].value.elts
        roles = reflect.Roles(seq=["sorted_blocks"])
        ma = reflect.Reflector(roles, True, f).pos_coord(a)
        pb = reflect.Reflector(roles, False, f).pos_coord(b)
        n += 1
        if ma != pb:
            ctx.fail("F4", defs[0], q, src(defs[0]), "the window in which a feature counts as skipped is not mirror-symmetric: its left border "
                     "mirrors to %s but the right border is %s - features near one end of the read are counted as excluded although "
                     "the read does not skip them (or the reverse)" % (ma, pb))
        else:
            ctx.ok("F4", "%s:%d" % (LRP, defs[0].lineno), "%s: mapped_region is mirror-symmetric (%s)" % (q.split(".")[-1], src(defs[0].value)))
        inner = "sorted_blocks[0][1]" in src(a) and "sorted_blocks[-1][0]" in src(b)
        outer = "sorted_blocks[0][0]" in src(a) and "sorted_blocks[-1][1]" in src(b)
        if want_inner and not inner:
            ctx.fail("F4", defs[0], q, src(defs[0]), "exon exclusion must be judged between the read's first exon END and last exon START "
                     "(an exon lying between the first and last exon of the read)")
        elif not want_inner and not outer:
            ctx.fail("F4", defs[0], q, src(defs[0]), "intron exclusion must be judged over the read's whole span")
        else:
            ctx.ok("F4", "%s:%d" % (LRP, defs[0].lineno), "%s window uses the %s block borders" % (q.split(".")[-1], "inner" if want_inner else "outer"))
    ctx.floor("F4", "profile windows", n, 2)


def f5(prog, ctx):
    """The counters' validity predicate distinguishes 'no profile' (None / attribute absent) from 'empty profile' ([] is legitimate:
    a gene cluster without introns has an empty intron profile)."""
    f = prog.func(LRC, "ProfileFeatureCounter.is_valid")
    n = 0
    for node in walk_no_nested(f):
        is_ref = (isinstance(node, ast.Attribute) and node.attr.endswith("_gene_profile")) or \
                 (isinstance(node, ast.Constant) and isinstance(node.value, str) and node.value.endswith("_gene_profile"))
        if not is_ref:
            continue
        # climb to the expression whose truth value is used
        cur = node
        while True:
            par = getattr(cur, "_parent", None)
            if isinstance(par, (ast.BoolOp, ast.Return, ast.If, ast.IfExp, ast.Assign, ast.While)) or par is None or \
                    (isinstance(par, ast.UnaryOp) and isinstance(par.op, ast.Not)):
                break
            cur = par
        n += 1
        ok = False
        if isinstance(cur, ast.Compare) and len(cur.ops) == 1 and isinstance(cur.ops[0], (ast.Is, ast.IsNot)) \
                and isinstance(cur.comparators[0], ast.Constant) and cur.comparators[0].value is None:
            ok = True
        if isinstance(cur, ast.Call) and call_name(cur) == "hasattr":
            ok = True
        if ok:
            ctx.ok("F5", "%s:%d" % (LRC, cur.lineno), "is_valid tests the profile for presence only: %s" % src(cur)[:70])
        else:
            ctx.fail("F5", cur, f._qualname, src(cur)[:90], "the validity test uses the truth value / size of a profile vector (%s): an EMPTY "
                     "profile is a legitimate value (gene cluster without introns, or without exons of that kind) and such reads would be "
                     "skipped by both feature counters - rows of isolated mono-exonic genes disappear" % src(cur)[:60])
    ctx.floor("F5", "profile references in ProfileFeatureCounter.is_valid", n, 2)


def f6(prog, ctx):
    """Row attributes of a feature are aggregated over all isoforms that contain it: strand string and gene list range over the same
    collection, neither is taken from a single member."""
    from ..engine.dataflow import single_def_env
    from ..engine import symexec
    f = prog.func("src/gene_info.py", "GeneInfo.set_feature_properties")
    ctor = [c for c in walk_no_nested(f) if isinstance(c, ast.Call) and (call_name(c) or "").split(".")[-1] == "FeatureInfo"]
    if len(ctor) != 1:
        raise AnalysisError("set_feature_properties: expected one FeatureInfo(...) construction")
    fi = prog.func("src/gene_info.py", "FeatureInfo.__init__")
    from ..engine import argswap
    bound = argswap.bind_args(ctor[0], fi, bound_method=True)
    strand_e = next((v for k, v in bound.items() if "strand" in k), None)
    genes_e = next((v for k, v in bound.items() if "gene" in k), None)
    if strand_e is None or genes_e is None:
        raise AnalysisError("FeatureInfo(...): strand / gene arguments not found")
    loop = None
    for l in flow.enclosing_loops(ctor[0]):
        if isinstance(l, ast.For):
            loop = l
    if loop is None:
        raise AnalysisError("set_feature_properties: FeatureInfo is not built in the loop over features")
    env = {}
    for a in walk_no_nested(loop):
        if isinstance(a, ast.Assign) and len(a.targets) == 1 and isinstance(a.targets[0], ast.Name):
            env.setdefault(a.targets[0].id, []).append(a.value)
    env = {k: v[0] for k, v in env.items() if len(v) == 1}

    def closure(e, depth=0):
        for _ in range(5):
            e2 = symexec.subst(e, env)
            if src(e2) == src(e):
                break
            e = e2
        return e

    def domain(e):
        """(collections a comprehension ranges over, collections indexed with a constant) in the closed expression"""
        ranged, picked = set(), set()
        for x in ast.walk(e):
            if isinstance(x, (ast.ListComp, ast.SetComp, ast.GeneratorExp)):
                for g in x.generators:
                    if not isinstance(g.iter, (ast.ListComp, ast.SetComp, ast.GeneratorExp)):
                        ranged.add(src(g.iter))          # a comprehension over a comprehension ranges over the inner one's collection
            if isinstance(x, ast.Subscript) and isinstance(x.slice, ast.Constant) and isinstance(x.slice.value, int):
                base = x.value
                if isinstance(base, (ast.ListComp, ast.Subscript, ast.Call)):
                    picked.add(src(base))
        return ranged, picked
    sr, sp = domain(closure(strand_e))
    gr, gp = domain(closure(genes_e))
    coll = {x for x in sr | gr if "[" in x}
    n = 0
    for what, r, pck in (("strand", sr, sp), ("gene list", gr, gp)):
        n += 1
        single = [x for x in pck if any(c in x for c in coll)]
        if not r:
            ctx.fail("F6", ctor[0], f._qualname, "%s of the row" % what, "the %s of a feature row is not aggregated over the isoforms containing the feature" % what)
        elif single:
            ctx.fail("F6", ctor[0], f._qualname, "%s of the row: %s[<const>]" % (what, single[0][:60]),
                     "the %s of a feature row is taken from a single member (%s[...]) of the collection of isoforms that contain the feature, while the "
                     "row describes all of them: an exon / intron annotated on both strands or in two genes gets the attributes of whichever isoform "
                     "comes first" % (what, single[0][:50]))
        elif sr != gr:
            ctx.fail("F6", ctor[0], f._qualname, "strand over %s, genes over %s" % (sorted(sr), sorted(gr)),
                     "strand and gene list of a feature row are aggregated over different collections")
        else:
            ctx.ok("F6", "src/gene_info.py:%d" % ctor[0].lineno, "%s of a feature row aggregated over %s" % (what, sorted(r)[0][:50]))
    ctx.floor("F6", "aggregated row attributes", n, 2)


def f7(prog, ctx):
    """Under --count_exons every read's exon profile is the one computed by construct_exon_profile from its blocks."""
    from ..engine import taint
    f = prog.func("src/long_read_profiles.py", "CombinedProfileConstructor.construct_profiles")
    n = 0
    fi = prog.func("src/long_read_profiles.py", "CombinedReadProfiles.__init__")
    from ..engine import argswap
    for pth in flow.paths(f):
        if pth.exit != "return" or pth.exit_node is None or not isinstance(pth.exit_node.value, ast.Call):
            continue
        bound = argswap.bind_args(pth.exit_node.value, fi, bound_method=True)
        env = taint.run(pth, {})
        flags = [pol for t, pol in pth.conds() if "count_exons" in src(t) and isinstance(t, (ast.Attribute, ast.Name))]
        for kind, callee in (("exon", "construct_exon_profile"), ("intron", "construct_intron_profile"), ("split_exon", "construct_profile")):
            arg = next((v for k, v in bound.items() if k.startswith(kind) or k == "read_%s_profile" % kind), None)
            if arg is None:
                raise AnalysisError("CombinedReadProfiles(...): %s profile argument not found" % kind)
            if kind == "exon" and flags and not all(flags):
                continue                       # exon counting is off on this path
            n += 1
            if "call:" + callee not in taint.influence(arg, env):
                ctx.fail("F7", pth.exit_node, f._qualname, "%s profile = %s on path %s" % (kind, src(arg)[:40], pth.describe()[:80]),
                         "on this path the %s profile handed on to the counters is not the result of %s(<the read's blocks>): reads taking this path "
                         "are counted with a made-up profile" % (kind, callee))
    if n:
        ctx.ok("F7", "src/long_read_profiles.py:%d" % f.lineno, "every profile of every path comes from its construct_* call (%d path x profile pairs)" % n)
    ctx.floor("F7", "path x profile pairs", n, 5)


def f8(prog, ctx):
    """Every processed read carries its exon / intron profile into the counters: whether the profiles are attached may depend on the run
    option only, not on what kind of assignment the read got."""
    AP = "src/alignment_processor.py"
    n = 0
    for m, q, f in prog.all_functions():
        if m.rel != AP:
            continue
        for st in walk_no_nested(f):
            if not (isinstance(st, ast.Assign) and any(isinstance(t, ast.Attribute) and t.attr.endswith("gene_profile") for t in st.targets)):
                continue
            n += 1
            bad = None
            for g in flow.guards_of(st, stop=f):
                if g.kind == "early-exit":
                    continue          # reads filtered out before (unmapped, supplementary, ...) are not processed at all: C05's business
                for atom, pol in flow.conjuncts(g.test, g.polarity):
                    names = {dotted(x) for x in ast.walk(atom) if isinstance(x, (ast.Name, ast.Attribute)) and dotted(x)
                             and not isinstance(getattr(x, "_parent", None), ast.Attribute)}
                    roots = {x.split(".")[0] + "." + x.split(".")[1] if x.count(".") else x for x in names}
                    if not all(r_.startswith(("self.params", "self.args", "params", "args")) or r_[:1].isupper() for r_ in roots):
                        bad = bad or (atom, pol)
            tgt = next(t for t in st.targets if isinstance(t, ast.Attribute))
            if bad:
                ctx.fail("F8", st, q, src(st)[:90], "the %s of a read is stored only if %s%s: reads for which this is false reach the exon / intron "
                         "counters with an empty profile and their include / exclude contributions are lost" % (tgt.attr, "" if bad[1] else "not ", src(bad[0])[:70]))
            else:
                ctx.ok("F8", "%s:%d" % (AP, st.lineno), "%s: %s attached under run options only" % (q, tgt.attr))
    ctx.floor("F8", "profile attachments", n, 2)


def f9(prog, ctx):
    """The exon and the intron counter of a pair are built the same way (same arguments, exon <-> intron)."""
    DSPM = "src/dataset_processor.py"
    n = 0
    for m, q, f in prog.all_functions():
        if m.rel != DSPM:
            continue
        for blk_owner in ast.walk(f):
            for fld in ("body", "orelse"):
                blk = getattr(blk_owner, fld, None)
                if not isinstance(blk, list):
                    continue
                ex = [c for st in blk if isinstance(st, ast.Assign) for c in [st.value] if isinstance(c, ast.Call) and call_name(c) == "ExonCounter"]
                it = [c for st in blk if isinstance(st, ast.Assign) for c in [st.value] if isinstance(c, ast.Call) and call_name(c) == "IntronCounter"]
                for a, b in zip(ex, it):
                    n += 1
                    sa = [src(x).replace("exon", "#") for x in a.args] + sorted("%s=%s" % (k.arg, src(k.value).replace("exon", "#")) for k in a.keywords)
                    sb = [src(x).replace("intron", "#") for x in b.args] + sorted("%s=%s" % (k.arg, src(k.value).replace("intron", "#")) for k in b.keywords)
                    if sa != sb:
                        ctx.fail("F9", a, q, "%s vs %s" % (src(a)[:60], src(b)[:60]), "the exon counter and the intron counter of one pair are constructed "
                                 "with different arguments (%s vs %s): one of the two tables is grouped / written differently from its twin" % (sa, sb))
                    else:
                        ctx.ok("F9", "%s:%d" % (DSPM, a.lineno), "%s: ExonCounter / IntronCounter pair built with parallel arguments" % q)
    ctx.floor("F9", "exon / intron counter pairs", n, 2)


def f10(prog, ctx):
    """The exon and the intron counter are twins: whether a read is counted at all is decided by the same tests in both (the exon profile of
    a single-block read is not empty: it includes an annotated exon the block coincides with)."""
    LRC_ = "src/long_read_counter.py"
    fe, fi = prog.try_func(LRC_, "ExonCounter.add_read_info"), prog.try_func(LRC_, "IntronCounter.add_read_info")
    if fe is None or fi is None:
        ctx.undecided("F10", prog.module(LRC_).tree, "ExonCounter / IntronCounter", "add_read_info of the two counters not found")
        return

    def exits(f):
        out = []
        for st in f.body:
            if isinstance(st, ast.If) and not st.orelse and any(isinstance(x, ast.Return) for x in st.body):
                out.append(re.sub(r"exon|intron", "<feature>", src(st.test)))
        return sorted(out)
    ee, ei = exits(fe), exits(fi)
    if ee == ei:
        ctx.ok("F10", "%s:%d" % (LRC_, fe.lineno), "ExonCounter / IntronCounter skip a read under the same tests: %s" % ee)
    else:
        extra = [t for t in ee if t not in ei] or [t for t in ei if t not in ee]
        which = "ExonCounter" if [t for t in ee if t not in ei] else "IntronCounter"
        ctx.fail("F10", fe if which == "ExonCounter" else fi, which + ".add_read_info", "extra skip: %s" % extra[0][:70],
                 "%s leaves out reads under a test its twin does not have (%s): for those reads one of the two tables loses inclusions that "
                 "the profile does contain" % (which, extra[0][:80]))
    ctx.floor("F10", "twin counters compared", 1, 1)


def run(prog, ctx):
    ctx.rule("F10", "ExonCounter.add_read_info and IntronCounter.add_read_info return early under the same tests (exon <-> intron)")
    f10(prog, ctx)
    ctx.rule("F5", "ProfileFeatureCounter.is_valid refers to the profile vectors only through `is (not) None` and hasattr - never "
                   "through truthiness or length (an empty profile is valid)")
    f5(prog, ctx)
    ctx.rule("F4", "the 'spanned' window of the exon profile is (first block end + delta, last block start - delta) and that of the intron "
                   "profile the read's whole span; both are mirror-symmetric under strand reflection")
    ctx.rule("F3", "ProfileFeatureCounter.dump iterates all registered features x all groups and writes a row iff one count is positive; "
                   "features are registered on both inclusion and exclusion")
    ctx.rule("F1", "feature-kind tags (exon / intron / split_exon, read from identifiers) agree at every hand-over of a profile or "
                   "feature table: constructor wiring, combined profile fields, assignment fields, property maps, counters, files; "
                   "the feature table has exactly one entry per feature in list order")
    ctx.rule("F2", "in add_read_info_from_profile value 1 feeds only the inclusion counter and -1 only the exclusion counter, with "
                   "the feature id taken at the same index; dump writes the two in header order")
    ctx.rule("F6", "in set_feature_properties the strand string and the gene list passed to FeatureInfo are both aggregated by a comprehension over "
                   "the same collection (the isoforms containing the feature); neither picks a constant index of that collection")
    f6(prog, ctx)
    ctx.rule("F8", "the assignments of <read>.exon_gene_profile / intron_gene_profile in the alignment collector are controlled by run options only")
    f8(prog, ctx)
    ctx.rule("F9", "sibling agreement: every ExonCounter(...) construction has an IntronCounter(...) twin in the same block with the same arguments "
                   "(exon <-> intron)")
    f9(prog, ctx)
    ctx.rule("F7", "construct_profiles: on every path, each profile passed to CombinedReadProfiles is (influence propagation) the result of its "
                   "own construct_* call; the exon profile may be missing only when params.count_exons is false")
    f7(prog, ctx)
    n = f1(prog, ctx)
    f2(prog, ctx)
    f3(prog, ctx)
    f4(prog, ctx)
    ctx.floor("F1", "hand-over sites", n, 18)
    ctx.assume("that profile values themselves are right (set-theoretic, C19-like) is not decided")
    ctx.assume("identifiers name the feature kind they hold (exon/intron/split_exon stems) - the repository's own convention")
