"""C05 - every aligned read is accounted for (structural "who may drop a read" part).

D1 inventory of every place an alignment can leave the pipeline; each is guarded only by documented filter atoms
D2 genic / intergenic siblings apply the same pre-filters
D3 all sub-regions are processed (no early exit), final flush exists
D4 the alignment statistics chain is a partition of the records
D5 storage reset() completeness; duplicate search has no early exit
D6 the sub-regions produced by coverage splitting tile the cluster (no gap, tail covered, never an empty list)
D7 the in-memory storage's index slice is a superset of the overlapping alignments; BAM sibling fetches the closed region
"""
import ast
import re

from ..engine.program import AnalysisError, dotted, src, walk_no_nested, call_name
from ..engine import flow, linform, symexec

AP = "src/alignment_processor.py"
DSP = "src/dataset_processor.py"
AIO = "src/assignment_io.py"

# documented filter vocabulary: regex on the normalised atom text -> reason
VOCAB = [
    (r"^alignment\.reference_id == -1$", "unmapped record"),
    (r"^alignment\.is_supplementary$", "supplementary alignments are not used (documented)"),
    (r"^self\.params\.no_secondary$", "--no_secondary option"),
    (r"^alignment\.is_secondary$", "secondary flag (with no_secondary / simple-alignment rule)"),
    (r"^self\.params\.min_mapq$", "--min_mapq option set"),
    (r"^alignment\.mapping_quality < self\.params\.(min_mapq|inconsistent_mapq_cutoff|simple_alignments_mapq_cutoff)$", "MAPQ cut-offs"),
    (r"^alignment_info\.read_exons$", "no aligned exons"),
    (r"^len\(alignment_info\.read_exons\) <= 2$", "simple (<= 2 exon) alignments, only with secondary/MAPQ atom"),
    (r"^read_assignment\.assignment_type in \[ReadAssignmentType\.unique, ReadAssignmentType\.unique_minor_difference, ReadAssignmentType\.ambiguous\]$",
     "inconsistent assignment, only with the MAPQ atom"),
    (r"^resolved_assignment$", "no resolved record for a multimapper (logged)"),
    (r"^resolved_assignment\.assignment_type == ReadAssignmentType\.suspended$", "multimap verdict (C08)"),
    (r"^self\.multimapped_chr_dict is not None$", "multimap table present"),
    (r"^read_assignment\.read_id in self\.multimapped_chr_dict$", "read is multi-mapped"),
    (r"^read_assignment is None$", "None guard"),
    (r"^read_assignment\.(assignment_type|isoform_matches|exons|gene_info) is None$", "None guard"),
    (r"^hasattr\(read_assignment, 'gene_info'\)$", "None guard"),
    (r"^self\.assignment_checker is None$", "printer filter object (PrintAll at all final-output construction sites)"),
    (r"^self\.assignment_checker\.check\(read_assignment\)$", "printer filter object (PrintAll at all final-output construction sites)"),
]
REQUIRES_MAPQ = (r"len\(alignment_info\.read_exons\) <= 2", r"read_assignment\.assignment_type in \[")


def vocab_reason(atom_text):
    atom_text = re.sub(r"getattr\((\w+), '(\w+)', None\)", r"\1.\2", atom_text)
    for rx, why in VOCAB:
        if re.match(rx, atom_text):
            return why
    return None


def drop_sites(scope, stop):
    """Continue/Return(None)/Break nodes with the If tests that control them (inside `scope`)."""
    out = []
    for n in ast.walk(scope):
        if isinstance(n, (ast.FunctionDef, ast.Lambda)) and n is not scope:
            continue
        if isinstance(n, (ast.Continue, ast.Break)) or (isinstance(n, ast.Return) and (n.value is None or
                                                         (isinstance(n.value, ast.Constant) and n.value.value is None))):
            tests = []
            cur = n
            while cur is not None and cur is not scope:
                parent = getattr(cur, "_parent", None)
                if isinstance(parent, ast.If):
                    tests.append(parent.test)
                cur = parent
            out.append((n, tests))
    return out


def check_sites(ctx, q, f, scope, sites, rel):
    n = 0
    for node, tests in sites:
        n += 1
        atoms = []
        for t in tests:
            atoms.extend(flow.atoms(t))
        texts = [src(a) for a in atoms]
        unknown = [t for t in texts if vocab_reason(t) is None]
        if not tests:
            ctx.fail("D1", node, q, src(node), "an unconditional %s ends read processing here" % type(node).__name__.lower())
            continue
        if unknown:
            ctx.fail("D1", node, q, "if %s: %s" % (" / ".join(src(t) for t in tests), src(node)),
                     "an alignment can be dropped here depending on %s, which is not one of the documented filters (mapped, not "
                     "supplementary, secondary policy, MAPQ cut-offs, no exons, multimap verdict, None guards)" % unknown)
            continue
        need_mapq = [t for t in texts if any(re.match(rx, t) for rx in REQUIRES_MAPQ)]
        if need_mapq and not any("mapping_quality <" in t or t == "alignment.is_secondary" for t in texts):
            ctx.fail("D1", node, q, "if %s: %s" % (" / ".join(src(t) for t in tests), src(node)),
                     "atom %s may drop a read only together with a MAPQ / secondary atom" % need_mapq)
            continue
        ctx.ok("D1", "%s:%d" % (rel, node.lineno), "%s drop site guarded by {%s}" % (q.split(".")[-1], "; ".join(texts)))
    return n


def d1(prog, ctx):
    total = 0
    # 1. raw loop: every record is added to the storage
    f = prog.func(AP, "AlignmentCollector.process")
    loops = [l for l in f.body if isinstance(l, ast.For)]
    if len(loops) != 1:
        raise AnalysisError("AlignmentCollector.process: record loop not found")
    loop = loops[0]
    jumps = [n for n in ast.walk(loop) if isinstance(n, (ast.Continue, ast.Break, ast.Return))]
    adds = [st for st in loop.body if isinstance(st, ast.Expr) and "alignment_storage.add_alignment(" in src(st)]
    if jumps or len(adds) != 1:
        ctx.fail("D1", (jumps or [loop])[0], f._qualname, src((jumps or [loop])[0])[:80],
                 "the record loop must add every alignment to the storage unconditionally (no continue/break/return)")
    else:
        ctx.ok("D1", "%s:%d" % (AP, adds[0].lineno), "process: every record reaches alignment_storage.add_alignment")
    total += 1
    # 2. per-region processing loops
    for q in ("AlignmentCollector.process_genic", "AlignmentCollector.process_intergenic"):
        f = prog.func(AP, q)
        loops = [l for l in f.body if isinstance(l, ast.For)]
        if len(loops) != 1:
            raise AnalysisError("%s: alignment loop not found" % q)
        loop = loops[0]
        total += check_sites(ctx, q, f, loop, drop_sites(loop, f), AP)
        fw = [st for st in loop.body if isinstance(st, ast.Expr) and src(st) == "assignment_storage.append(read_assignment)"]
        if len(fw) != 1:
            ctx.fail("D1", loop, q, "assignment_storage.append", "the assignment is not appended unconditionally at the end of the iteration")
        else:
            ctx.ok("D1", "%s:%d" % (AP, fw[0].lineno), "%s: surviving read appended unconditionally" % q.split(".")[-1])
        rets = [r for r in walk_no_nested(f) if isinstance(r, ast.Return)]
        if [src(r) for r in rets] != ["return assignment_storage"]:
            ctx.fail("D1", f, q, "return", "the region's assignment list is not returned as a whole")
    # 3. stage 1 -> temp file
    f = prog.func(DSP, "collect_reads_in_parallel")
    outer = [l for l in walk_no_nested(f) if isinstance(l, ast.For) and "alignment_collector.process()" in src(l.iter)]
    if len(outer) != 1:
        raise AnalysisError("collect_reads_in_parallel: main loop not found")
    inner = [l for l in outer[0].body if isinstance(l, ast.For)]
    jumps = [n for n in ast.walk(outer[0]) if isinstance(n, (ast.Continue, ast.Break, ast.Return))]
    okw = inner and any(src(st) == "tmp_printer.add_read_info(read_assignment)" for st in inner[0].body)
    if jumps or not okw:
        ctx.fail("D1", (jumps or [outer[0]])[0], f._qualname, src((jumps or [outer[0]])[0])[:80],
                 "every read assignment of every region must be written to the temp file unconditionally")
    else:
        ctx.ok("D1", "%s:%d" % (DSP, inner[0].lineno), "collect_reads_in_parallel: every assignment written to the save file")
    total += 1
    # 4. printers and loader
    for rel, q in ((AIO, "TmpFileAssignmentPrinter.add_read_info"), (AIO, "BEDPrinter.add_read_info"),
                   (AIO, "BasicTSVAssignmentPrinter.add_read_info")):
        f = prog.func(rel, q)
        sites = [(n, t) for n, t in drop_sites(f, f)]
        # returns after a completed write are not drops: keep only those before the first write on their branch
        real = []
        for n, t in sites:
            prev_write = any(isinstance(s, ast.Expr) and ".write(" in src(s) and s.lineno < n.lineno and s._parent is n._parent
                             for s in ast.walk(f))
            if not prev_write:
                real.append((n, t))
        total += check_sites(ctx, q, f, f, real, rel)
    g = prog.func_inlined(DSP, "ReadAssignmentLoader.get_next")
    wl = [l for l in g.body if isinstance(l, ast.While)]
    if len(wl) != 1:
        raise AnalysisError("get_next: record loop not found")
    total += check_sites(ctx, g._qualname, g, wl[0], drop_sites(wl[0], g), DSP)
    # 5. stage 2 loop
    f = prog.func(DSP, "construct_models_in_parallel")
    loops = [l for l in ast.walk(f) if isinstance(l, ast.For) and src(l.iter) == "assignment_storage"]
    if len(loops) != 1:
        raise AnalysisError("construct_models_in_parallel: per-read loop not found")
    total += check_sites(ctx, f._qualname, f, loops[0], drop_sites(loops[0], f), DSP)
    calls = [src(st) for st in loops[0].body if isinstance(st, ast.Expr)]
    for need in ("aggregator.global_printer.add_read_info(read_assignment)", "aggregator.global_counter.add_read_info(read_assignment)"):
        if need not in calls:
            ctx.fail("D1", loops[0], f._qualname, need, "stage 2 does not forward every loaded read to %s unconditionally" % need.split("(")[0])
        else:
            ctx.ok("D1", "%s:%d" % (DSP, loops[0].lineno), "stage 2: %s for every loaded read" % need.split("(")[0])
    # 6. printers of final outputs are built with the print-all checker
    agg = prog.func(DSP, "ReadAssignmentAggregator.__init__")
    for c in walk_no_nested(agg):
        if isinstance(c, ast.Call) and call_name(c) in ("BEDPrinter", "BasicTSVAssignmentPrinter"):
            if any(k.arg == "assignment_checker" for k in c.keywords) or (call_name(c) == "BEDPrinter" and len(c.args) > 3):
                ctx.fail("D1", c, agg._qualname, src(c)[:90], "a final-output printer is constructed with a filtering assignment_checker")
            else:
                ctx.ok("D1", "%s:%d" % (DSP, c.lineno), "%s built with the default PrintAllFunctor" % call_name(c))
    for m_, q_, f_ in prog.all_functions():
        for st in walk_no_nested(f_):
            if isinstance(st, ast.Assign):
                for t in st.targets:
                    if isinstance(t, ast.Attribute) and t.attr == "assignment_checker" and q_ != "AbstractAssignmentPrinter.__init__":
                        ctx.fail("D1", st, q_, src(st), "a printer's assignment_checker is rebound after construction: reads can be "
                                 "filtered out of the final outputs")
    pa = prog.cls(AIO, "PrintAllFunctor")
    chk = prog.methods_of(pa).get("check")
    if chk is None or [src(s) for s in chk.body] != ["return True"]:
        ctx.fail("D1", pa, "PrintAllFunctor.check", "check", "PrintAllFunctor.check no longer accepts every assignment")
    ctx.floor("D1", "drop sites and forwarding obligations", total, 14)


def d2(prog, ctx):
    sets = {}
    for q in ("AlignmentCollector.process_genic", "AlignmentCollector.process_intergenic"):
        f = prog.func(AP, q)
        loop = [l for l in f.body if isinstance(l, ast.For)][0]
        ai = [st for st in loop.body if isinstance(st, ast.Assign) and "AlignmentInfo(alignment)" in src(st.value)]
        if len(ai) != 1:
            raise AnalysisError("%s: AlignmentInfo construction not found" % q)
        cut = ai[0].lineno
        atoms = set()
        for node, tests in drop_sites(loop, f):
            if node.lineno <= cut + 4:      # pre-filters and the 'no aligned exons' test right after construction
                for t in tests:
                    atoms |= {src(a) for a in flow.atoms(t)}
        sets[q] = atoms
    a, b = sets["AlignmentCollector.process_genic"], sets["AlignmentCollector.process_intergenic"]
    if a != b:
        ctx.fail("D2", prog.func(AP, "AlignmentCollector.process_intergenic"), "process_genic / process_intergenic",
                 "only genic: %s; only intergenic: %s" % (sorted(a - b), sorted(b - a)),
                 "the alignment pre-filters differ between annotated and unannotated regions: %s" % sorted(a ^ b))
    else:
        ctx.ok("D2", AP, "genic and intergenic pre-filters agree: %s" % sorted(a))


def d3(prog, ctx):
    f = prog.func(AP, "AlignmentCollector.forward_alignments")
    loops = [l for l in walk_no_nested(f) if isinstance(l, ast.For) and src(l.iter) == "split_regions"]
    if len(loops) != 1:
        ctx.undecided("D3", f, f._qualname, "found %d loops over split_regions, expected one" % len(loops))
        return
    l = loops[0]
    jumps = [n for n in ast.walk(l) if isinstance(n, (ast.Continue, ast.Break, ast.Return))]
    ys = [st for st in l.body if isinstance(st, ast.Expr) and isinstance(st.value, ast.Yield)]
    if jumps or len(ys) != 1:
        ctx.fail("D3", (jumps or [l])[0], f._qualname, src((jumps or [l])[0])[:80],
                 "the sub-region loop must yield every region's result exactly once, with no early exit")
    else:
        y = ys[0].value.value
        tgt = src(l.target)
        yargs = ([src(a) for a in y.args] + [src(k.value) for k in y.keywords]) if isinstance(y, ast.Call) else []
        fetched = [st_ for st_ in l.body if isinstance(st_, ast.Assign) and "get_alignments(%s)" % tgt in src(st_.value)]
        fetched_ok = any("get_alignments(%s)" % tgt in a for a in yargs) or \
            any(src(st_.targets[0]) in yargs for st_ in fetched)
        if not (isinstance(y, ast.Call) and tgt in yargs and fetched_ok):
            ctx.fail("D3", ys[0], f._qualname, src(ys[0]), "yielded result is not that of the loop's own region")
        else:
            ctx.ok("D3", "%s:%d" % (AP, l.lineno), "every split region is fetched and processed, no early exit")
    single = [st for st in ast.walk(f) if isinstance(st, ast.Expr) and isinstance(st.value, ast.Yield)
              and "alignment_storage.get_alignments()" in src(st)]
    if len(single) != 1:
        ctx.undecided("D3", f, f._qualname, "the unsplit branch (yield of process_*(..., alignment_storage.get_alignments())) was not found")
    else:
        ctx.ok("D3", "%s:%d" % (AP, single[0].lineno), "unsplit region forwards the whole storage")
    p = prog.func(AP, "AlignmentCollector.process")
    # the statement after the record loop that forwards what is still in the storage (anything may follow it: logging, statistics)
    rec_loops = [i for i, st_ in enumerate(p.body) if isinstance(st_, (ast.For, ast.While)) and "forward_alignments" in src(st_)]
    after = p.body[rec_loops[-1] + 1:] if rec_loops else p.body
    flushes = [st_ for st_ in after if "forward_alignments" in src(st_)]
    tail = flushes[-1] if flushes else p.body[-1]
    okt = isinstance(tail, ast.If) and src(tail.test) == "alignment_storage.region" and "self.forward_alignments(alignment_storage)" in src(tail)
    if not okt and not (isinstance(tail, ast.If) and "forward_alignments" in src(tail)):
        ctx.fail("D3", p, p._qualname, "final flush", "the last region is not flushed after the record loop")
    elif not okt:
        ctx.undecided("D3", tail, p._qualname, "the final flush has an unexpected form: %s" % src(tail)[:80])
    else:
        ctx.ok("D3", "%s:%d" % (AP, tail.lineno), "final region flushed after the loop")
    # flush before reset inside the loop
    loop = [l for l in p.body if isinstance(l, ast.For)][0]
    na = [i for i in loop.body if isinstance(i, ast.If) and "alignment_is_not_adjacent" in src(i.test)]
    if len(na) != 1:
        ctx.undecided("D3", loop, p._qualname, "the region-boundary test (alignment_is_not_adjacent) was not found in the record loop")
    elif not (src(na[0].body[-1]) == "alignment_storage.reset()" and "forward_alignments" in src(na[0].body[0])):
        ctx.fail("D3", loop, p._qualname, "region switch", "storage is not forwarded before it is reset at a region boundary")
    else:
        ctx.ok("D3", "%s:%d" % (AP, na[0].lineno), "storage forwarded, then reset, at every region boundary")
    # split_coverage_regions: first region starts at genomic_region[0]... (value-level) - not decided


def d4(prog, ctx):
    p = prog.func(AP, "AlignmentCollector.process")
    loop = [l for l in p.body if isinstance(l, ast.For)][0]
    first = loop.body[0]
    want = [("alignment.is_secondary", "secondary"), ("alignment.is_supplementary", "supplementary"),
            ("alignment.reference_id != -1", "primary")]
    got = []
    node = first
    while isinstance(node, ast.If):
        adds = [c for st in node.body for c in ast.walk(st) if isinstance(c, ast.Call) and src(c.func) == "self.alignment_stat_counter.add"]
        cat = dotted(adds[0].args[0]).split(".")[-1] if len(adds) == 1 and len(node.body) == 1 else "?"
        got.append((src(node.test), cat))
        node = node.orelse[0] if len(node.orelse) == 1 and isinstance(node.orelse[0], ast.If) else None
    if not got or any(c_ == "?" for _t, c_ in got):
        ctx.undecided("D4", first, p._qualname, "the statistics if/elif chain at the top of the record loop was not found (found %s)" % got)
    elif got != want:
        ctx.fail("D4", first, p._qualname, str(got), "the statistics chain must count each record in exactly one of secondary / "
                 "supplementary / primary(mapped), as an if/elif chain at the top of the record loop (found %s)" % got)
    else:
        ctx.ok("D4", "%s:%d" % (AP, first.lineno), "stats chain: secondary | supplementary | mapped primary, mutually exclusive, once per record")
    # unaligned count added once per BAM file from the index
    c = prog.func(DSP, "DatasetProcessor.collect_reads")
    un = [x for x in walk_no_nested(c) if isinstance(x, ast.Call) and "AlignmentType.unaligned" in src(x)]
    if len(un) != 1 or "bam.unmapped" not in src(un[0]):
        ctx.fail("D4", c, c._qualname, "unaligned", "unaligned reads are not counted once per BAM from its index")
    else:
        ctx.ok("D4", "%s:%d" % (DSP, un[0].lineno), "unaligned = bam.unmapped per input file")
    mg = [x for x in walk_no_nested(c) if isinstance(x, ast.Call) and src(x.func) == "self.alignment_stat_counter.merge"]
    if len(mg) != 1:
        ctx.fail("D4", c, c._qualname, "merge", "per-chromosome alignment statistics are not merged exactly once each")
    else:
        ctx.ok("D4", "%s:%d" % (DSP, mg[0].lineno), "per-chromosome stats merged once per result")


def d5(prog, ctx):
    """reset() of the alignment storages re-initialises every mutable attribute the constructor sets
    (state leaking from one alignment cluster into the next makes get_alignments return wrong slices)."""
    n = 0
    for m, q, c in prog.all_classes():
        if m.rel != AP:
            continue
        meths = prog.methods_of(c, inherited=False)
        if "reset" not in meths or "__init__" not in meths:
            continue
        n += 1

        def attrs_set(f):
            out = {}
            for st in walk_no_nested(f):
                if isinstance(st, ast.Assign):
                    for t in st.targets:
                        d = dotted(t)
                        if d and d.startswith("self.") and d.count(".") == 1:
                            out[d[5:]] = st
            return out
        init, reset = attrs_set(meths["__init__"]), attrs_set(meths["reset"])
        # base reset must be chained if the base has one
        for attr, st in sorted(init.items()):
            v = st.value
            mutable = isinstance(v, (ast.Dict, ast.List, ast.Set)) or (isinstance(v, ast.Call) and (call_name(v) or "") in
                                                                        ("defaultdict", "dict", "list", "set")) \
                or (isinstance(v, ast.Constant) and isinstance(v.value, (int, bool)) and not isinstance(v.value, str)) \
                or (isinstance(v, ast.Constant) and v.value is None)
            if not mutable:
                continue
            if attr in ("bam_merger",):
                continue
            if attr not in reset:
                ctx.fail("D5", meths["reset"], "%s.reset" % c.name, "self.%s" % attr,
                         "%s.__init__ initialises self.%s but reset() does not: the index/state of one alignment cluster leaks into "
                         "the next one and get_alignments() selects reads with stale bounds" % (c.name, attr))
            elif src(reset[attr].value) != src(v):
                ctx.fail("D5", reset[attr], "%s.reset" % c.name, src(reset[attr]), "reset() sets self.%s to %s, the constructor to %s"
                         % (attr, src(reset[attr].value), src(v)))
            else:
                ctx.ok("D5", "%s:%d" % (AP, reset[attr].lineno), "%s.reset re-initialises self.%s" % (c.name, attr))
        bases = [dotted(b) for b in c.bases]
        for b in bases:
            bc = prog.find_class(b.split(".")[-1]) if b else []
            if bc and "reset" in prog.methods_of(bc[0][1], inherited=False):
                if "%s.reset(self)" % b not in src(meths["reset"]) and "super().reset()" not in src(meths["reset"]):
                    ctx.fail("D5", meths["reset"], "%s.reset" % c.name, "base reset", "reset() does not chain to %s.reset" % b)
    ctx.floor("D5", "storage classes with reset()", n, 3)
    # duplicate search must compare every pair: no early exit from either loop
    fd = prog.func("src/multimap_resolver.py", "MultimapResolver.find_duplicates")
    loops = [l for l in walk_no_nested(fd) if isinstance(l, ast.For)]
    if len(loops) == 1 and any(isinstance(x, ast.Compare) and isinstance(x.ops[0], (ast.In, ast.NotIn)) for x in ast.walk(loops[0])):
        jumps = [x for x in ast.walk(loops[0]) if isinstance(x, (ast.Break, ast.Return))]
        if jumps:
            ctx.fail("D5", jumps[0], fd._qualname, src(jumps[0]), "the duplicate search leaves its loop early")
        else:
            ctx.ok("D5", "src/multimap_resolver.py:%d" % fd.lineno, "find_duplicates is a single pass over a hash table of seen records "
                   "(its soundness is the hash/eq contract, rule D8)")
        return
    if len(loops) < 2:
        raise AnalysisError("find_duplicates: comparison loops not found")
    # the comparison loops: a loop nested in another loop together with its host (a separate scan before them - e.g. a fast path that
    # returns when all records have distinct keys - is not part of the pairwise search)
    nested = [l for l in loops if any(isinstance(x, ast.For) and x is not l for x in ast.walk(l))]
    cmp_loops = [l for l in loops if l in nested or any(l is not h and any(x is l for x in ast.walk(h)) for h in nested)]
    if not cmp_loops:
        ctx.undecided("D5", fd, fd._qualname, "no nested pair of comparison loops found in find_duplicates")
        return
    jumps = [x for l in cmp_loops for x in ast.walk(l) if isinstance(x, (ast.Break, ast.Return))]

    def last_index_exit(x):
        """`break` of the outer loop taken when its index is the last one (i + 1 == n / i == n - 1): the inner loop would be empty"""
        outer = [l for l in cmp_loops if l in nested]
        if not isinstance(x, ast.Break) or not outer or not isinstance(outer[0].target, ast.Name):
            return False
        if any(isinstance(l, ast.For) and l is not outer[0] for l in flow.enclosing_loops(x) if l in cmp_loops and l is not outer[0]):
            return False
        iv = outer[0].target.id
        for g in flow.guards_of(x, stop=outer[0]):
            t = g.test
            if g.polarity and isinstance(t, ast.Compare) and isinstance(t.ops[0], (ast.Eq, ast.GtE)) and \
                    re.match(r"^%s \+ 1 (==|>=) .+$|^%s (==|>=) .+ - 1$" % (iv, iv), src(t)):
                return True
        return False
    jumps = [x for x in jumps if not last_index_exit(x)]
    if jumps:
        ctx.fail("D5", jumps[0], fd._qualname, src(jumps[0]), "the duplicate search leaves a loop early: with three or more copies of a "
                 "record (read seen in three sub-regions) only some are discarded and identical records are reported twice")
    else:
        ctx.ok("D5", "src/multimap_resolver.py:%d" % fd.lineno, "find_duplicates compares every remaining pair (no break/return in the loops)")


# ---------------------------------------------------------------------------
# D6: the sub-region list tiles the cluster (symbolic walk with a ghost "covered up to" expression)
# ---------------------------------------------------------------------------

class _Unproved(Exception):
    pass


def _lin(e):
    return linform.linform(e)


def _diff(a, b):
    la, lb = _lin(a), _lin(b)
    out = dict(la)
    for k, v in lb.items():
        out[k] = out.get(k, 0) - v
    return {k: v for k, v in out.items() if v != 0}


def _const_diff(a, b):
    """a - b as a number if the difference of the two linear forms is a constant, else None."""
    d = _diff(a, b)
    if set(d) <= {"1"}:
        return d.get("1", 0)
    return None


def _strip_clamp(e, fn, bound_text):
    """max(A, g0) -> A / min(A, g1) -> A when one operand is the cluster bound (clamping to the cluster never uncovers a read)."""
    if isinstance(e, ast.Call) and isinstance(e.func, ast.Name) and e.func.id == fn and len(e.args) == 2 and not e.keywords:
        a, b = e.args
        if src(b) == bound_text:
            return a, True
        if src(a) == bound_text:
            return b, True
    return e, False


class _Tiling:
    """Simulates one syntactic path of split_coverage_regions.

    State: env (local name -> substituted AST), appended (bool), E (AST: end of the last appended interval; g0 - 1 initially),
    facts (list of (lhs, rhs) meaning lhs >= rhs collected from path conditions)."""

    def __init__(self, L, g, fresh):
        self.L = L
        self.g0 = ast.parse("%s[0]" % g, mode="eval").body
        self.g1 = ast.parse("%s[1]" % g, mode="eval").body
        self.g = g
        self.env = {}
        self.appended = False
        self.E = ast.BinOp(left=self.g0, op=ast.Sub(), right=ast.Constant(1))
        self.facts = []
        self.appends = []     # (lo, hi, E_before, stmt)
        self.fresh = fresh
        self.infeasible = False

    # -- expression evaluation ------------------------------------------------
    def ev(self, e):
        e = symexec.subst(e, self.env)
        return self._resolve(e)

    def _resolve(self, e):
        L = self.L
        tiling = self

        class R(ast.NodeTransformer):
            def visit_IfExp(self, n):
                t = n.test
                neg = False
                if isinstance(t, ast.UnaryOp) and isinstance(t.op, ast.Not):
                    t, neg = t.operand, True
                if isinstance(t, ast.Name) and t.id == L:
                    truth = tiling.appended != neg
                    return self.visit(n.body if truth else n.orelse)
                return self.generic_visit(n)

            def visit_Subscript(self, n):
                # L[-1][1] -> E
                if isinstance(n.value, ast.Subscript) and isinstance(n.value.value, ast.Name) and n.value.value.id == L \
                        and src(n.value.slice) == "-1" and src(n.slice) == "1":
                    if not tiling.appended:
                        raise _Unproved("%s[-1] is read on a path where the list is still empty" % L)
                    return symexec.clone(tiling.E)
                return self.generic_visit(n)
        return ast.fix_missing_locations(R().visit(e))

    # -- statements -------------------------------------------------------------
    def havoc(self, loop):
        for n in ast.walk(loop):
            if isinstance(n, ast.Name) and isinstance(n.ctx, ast.Store):
                self.fresh[0] += 1
                self.env[n.id] = ast.Name(id="%s_%d" % (n.id, self.fresh[0]), ctx=ast.Load())
            if isinstance(n, ast.Call) and src(n.func) == "%s.append" % self.L:
                raise _Unproved("%s.append inside a nested loop is not modelled" % self.L)

    def stmt(self, st):
        if isinstance(st, ast.Assign):
            val = self.ev(st.value)
            for t in st.targets:
                if isinstance(t, ast.Name):
                    if t.id == self.L:
                        if not (isinstance(st.value, ast.List) and not st.value.elts):
                            raise _Unproved("%s is rebound to something that is not an empty list" % self.L)
                        self.appended = False
                    else:
                        self.env[t.id] = val
                elif isinstance(t, ast.Subscript) and isinstance(t.value, ast.Name) and t.value.id == self.L:
                    raise _Unproved("element assignment %s is not modelled" % src(st))
                elif isinstance(t, (ast.Tuple, ast.List)):
                    for i, x in enumerate(t.elts):
                        if isinstance(x, ast.Name):
                            if isinstance(val, (ast.Tuple, ast.List)) and len(val.elts) == len(t.elts):
                                self.env[x.id] = val.elts[i]
                            else:
                                self.env[x.id] = ast.Subscript(value=symexec.clone(val), slice=ast.Constant(value=i), ctx=ast.Load())
        elif isinstance(st, ast.AugAssign) and isinstance(st.target, ast.Name):
            old = self.env.get(st.target.id, ast.Name(id=st.target.id, ctx=ast.Load()))
            self.env[st.target.id] = ast.BinOp(left=old, op=st.op, right=self.ev(st.value))
        elif isinstance(st, ast.Expr) and isinstance(st.value, ast.Call) and src(st.value.func) == "%s.append" % self.L:
            a = st.value.args[0] if st.value.args else None
            if not (isinstance(a, ast.Tuple) and len(a.elts) == 2):
                raise _Unproved("appended element %s is not a (start, end) tuple" % src(st))
            lo, hi = self.ev(a.elts[0]), self.ev(a.elts[1])
            self.appends.append((lo, hi, self.E, st))
            self.E = hi
            self.appended = True
        elif isinstance(st, ast.Expr) and isinstance(st.value, ast.Call) and self.L in src(st.value.func).split("."):
            raise _Unproved("list operation %s is not modelled" % src(st))

    def cond(self, test, pol):
        t = test
        if isinstance(t, ast.UnaryOp) and isinstance(t.op, ast.Not):
            t, pol = t.operand, not pol
        if isinstance(t, ast.Name) and t.id == self.L:
            if pol != self.appended:
                self.infeasible = True
            return
        if isinstance(t, ast.Compare) and len(t.ops) == 1:
            try:
                a, b = self.ev(t.left), self.ev(t.comparators[0])
            except _Unproved:
                return
            op = type(t.ops[0])
            if not pol:
                op = {ast.Lt: ast.GtE, ast.LtE: ast.Gt, ast.Gt: ast.LtE, ast.GtE: ast.Lt}.get(op)
            one = ast.Constant(1)
            if op is ast.GtE:
                self.facts.append((a, b))
            elif op is ast.Gt:
                self.facts.append((a, ast.BinOp(left=b, op=ast.Add(), right=one)))
            elif op is ast.LtE:
                self.facts.append((b, a))
            elif op is ast.Lt:
                self.facts.append((b, ast.BinOp(left=a, op=ast.Add(), right=one)))

    def proves_ge(self, a, b):
        """a >= b from syntactic equality of linear forms or one recorded fact x >= y with (a - b) - (x - y) a constant >= 0."""
        c = _const_diff(a, b)
        if c is not None:
            return c >= 0
        for x, y in self.facts:
            d = _diff(ast.BinOp(left=a, op=ast.Sub(), right=b), ast.BinOp(left=x, op=ast.Sub(), right=y))
            if set(d) <= {"1"} and d.get("1", 0) >= 0:
                return True
        return False


def _walk_events(t, events):
    for ev in events:
        if t.infeasible:
            return
        if ev[0] == "stmt":
            st = ev[1]
            if isinstance(st, (ast.For, ast.While)):
                continue          # handled through the 'iter' event
            t.stmt(st)
        elif ev[0] == "cond":
            t.cond(ev[1], ev[2])
        elif ev[0] == "iter":
            pass


def _min_bin_times_bin(e):
    """True for '<smallest coverage bin> * <COVERAGE_BIN> + c' with c <= 1 (bin start + 1 <= cluster start + 1)."""
    lf = _lin(e)
    c = lf.get("1", 0)
    atoms_ = [k for k in lf if k != "1"]
    if len(atoms_) != 1 or lf[atoms_[0]] != 1 or c > 1:
        return False
    a = atoms_[0]
    return bool(re.match(r"^(sorted\([\w.]+?(\.keys\(\))?\)\[0\]|min\([\w.]+?(\.keys\(\))?\)) \* [\w.]*COVERAGE_BIN$", a))


def d6(prog, ctx):
    f = prog.func(AP, "AlignmentCollector.split_coverage_regions")
    g = f.args.args[0].arg
    rets = [r for r in walk_no_nested(f) if isinstance(r, ast.Return)]
    names = {r.value.id for r in rets if isinstance(r.value, ast.Name)}
    if len(names) != 1:
        raise AnalysisError("split_coverage_regions: the returned region list variable was not identified (%s)" % sorted(names))
    L = names.pop()
    top_loops = [s for s in f.body if isinstance(s, (ast.While, ast.For))]
    n_paths = n_obl = 0
    fresh = [0]
    reported = set()

    def fail(node, construct, msg):
        key = (construct, msg[:60])
        if key not in reported:
            reported.add(key)
            ctx.fail("D6", node, f._qualname, construct, msg)

    def check_appends(t, first_E_is_start):
        nonlocal n_obl
        for i, (lo, hi, Eb, st) in enumerate(t.appends):
            n_obl += 1
            lo_s, _ = _strip_clamp(lo, "max", src(t.g0))
            Eb_s, _ = _strip_clamp(Eb, "min", src(t.g1))
            limit = ast.BinOp(left=Eb_s, op=ast.Add(), right=ast.Constant(1))
            if t.proves_ge(ast.BinOp(left=Eb, op=ast.Add(), right=ast.Constant(1)), lo) or t.proves_ge(limit, lo_s):
                continue
            if i == 0 and first_E_is_start and lo_s is not lo and _min_bin_times_bin(lo_s):
                continue       # max(first_bin * BIN + c, g0), c <= 1: the first sub-region starts at the cluster start
            fail(st, src(st), "sub-region (%s, %s) is appended when the list covers the cluster only up to %s: positions between "
                 "them belong to no sub-region and a read lying there is never fetched" % (src(lo), src(hi), src(Eb)))

    # 1. whole-function paths (loops taken 0 or 1 times)
    for p in flow.paths(f):
        if p.exit != "return" or p.exit_node is None:
            continue
        t = _Tiling(L, g, fresh)
        try:
            # nested loops inside the top-level loop body: havoc what they assign when they appear on the path
            for ev in p.events:
                if ev[0] == "iter" and ev[1] not in top_loops:
                    pass
            _walk_path(t, p, top_loops)
        except _Unproved as e:
            ctx.undecided("D6", p.exit_node, f._qualname, "cannot follow the region list on path %s: %s" % (p.describe()[:120], e))
            continue
        if t.infeasible:
            continue
        n_paths += 1
        rv = p.exit_node.value
        if isinstance(rv, ast.List) and len(rv.elts) == 1 and (src(rv.elts[0]) == g or (
                isinstance(rv.elts[0], ast.Tuple) and [src(e_) for e_ in rv.elts[0].elts] == ["%s[0]" % g, "%s[1]" % g])):
            continue                                     # the whole cluster as one region
        if not (isinstance(rv, ast.Name) and rv.id == L):
            fail(p.exit_node, src(p.exit_node), "returns something that is neither the region list nor [%s]" % g)
            continue
        check_appends(t, True)
        n_obl += 1
        if not t.proves_ge(t.E, t.g1):
            fail(p.exit_node, "%s on path %s" % (src(p.exit_node), _short(p)),
                 "the returned list covers the cluster only up to %s on the path [%s]; nothing on this path shows that this reaches "
                 "%s, so reads in the tail of the cluster belong to no sub-region (%s)"
                 % (src(t.E), p.describe()[:160], src(t.g1), "the list is empty" if not t.appended else "last region ends early"))
    # 2. loop-carried contiguity: two consecutive iterations of every top-level loop that appends
    for lp in top_loops:
        if not any(isinstance(c, ast.Call) and src(c.func) == "%s.append" % L for c in ast.walk(lp)):
            continue
        bodies = flow.block_paths(lp.body, "split_coverage_regions loop body")
        for p1 in bodies:
            for p2 in bodies:
                t = _Tiling(L, g, fresh)
                try:
                    # aliases defined before the loop (bin size, region bounds ...) are known inside it
                    for pre in f.body:
                        if pre is lp:
                            break
                        if isinstance(pre, ast.Assign) and not any(isinstance(x, ast.Name) and x.id == L for tt in pre.targets for x in ast.walk(tt)):
                            t.stmt(pre)
                    assigned_in_loop = {x.id for x in ast.walk(lp) if isinstance(x, ast.Name) and isinstance(x.ctx, ast.Store)}
                    for nm in assigned_in_loop:
                        t.env.pop(nm, None)
                except _Unproved:
                    pass
                t.appended = True
                t.E = ast.Name(id="E_prev", ctx=ast.Load())
                try:
                    _walk_path(t, p1, [])
                    k = len(t.appends)
                    _walk_path(t, p2, [])
                except _Unproved as e:
                    ctx.undecided("D6", lp, f._qualname, "cannot follow the region list through two iterations of the loop at line %d: %s" % (lp.lineno, e))
                    continue
                if t.infeasible or len(t.appends) <= k or k == 0:
                    continue
                t.appends = t.appends[k:]
                n_paths += 1
                check_appends(t, False)
    ctx.floor("D6", "paths / tiling obligations of split_coverage_regions", n_obl, 4)
    if not reported:
        ctx.ok("D6", "%s:%d" % (AP, f.lineno), "split_coverage_regions: %d paths, %d obligations - every appended sub-region starts no later "
               "than one past the covered prefix, and every returned list reaches %s[1] (or is [%s])" % (n_paths, n_obl, g, g))


def _short(p):
    return " / ".join(("" if pol else "not ") + src(t)[:40] for t, pol in p.conds()[-3:])


def _walk_path(t, p, top_loops):
    """Walk the events of a path; a nested loop (not in top_loops) havocs the names it assigns, whether taken 0 or 1 times."""
    skip_until = None
    events = p.events
    i = 0
    while i < len(events):
        ev = events[i]
        if t.infeasible:
            return
        if ev[0] == "stmt" and isinstance(ev[1], (ast.For, ast.While)):
            lp = ev[1]
            if lp not in top_loops:
                t.havoc(lp)
                # skip the events of the loop body (they are statements whose _parent chain contains lp)
                i += 1
                while i < len(events) and _inside(events[i], lp):
                    i += 1
                continue
        elif ev[0] == "stmt":
            t.stmt(ev[1])
        elif ev[0] == "cond":
            t.cond(ev[1], ev[2])
        i += 1


def _inside(ev, lp):
    if ev[0] == "iter":
        return ev[1] is lp
    node = ev[1]
    if ev[0] == "cond" and node is lp.test:
        return True
    cur = getattr(node, "_parent", None)
    while cur is not None:
        if cur is lp:
            return True
        cur = getattr(cur, "_parent", None)
    return False


# ---------------------------------------------------------------------------
# D7: the candidate index range of the in-memory storage is a superset of the overlapping alignments; BAM sibling is closed
# ---------------------------------------------------------------------------

def _bin_offset(e, env, region_name, k):
    """e == (region[k] // BIN) + c  ->  c, else None."""
    lf = linform.linform(e, env)
    c = lf.get("1", 0)
    at = [a for a in lf if a != "1"]
    if len(at) == 1 and lf[at[0]] == 1 and re.match(r"^%s\[%d\] // [\w.]*COVERAGE_BIN$" % (re.escape(region_name), k), at[0]):
        return c
    return None


def d7(prog, ctx):
    cls = prog.cls(AP, "InMemoryAlignmentStorage")
    meths = prog.methods_of(cls, inherited=False)
    ga, add, fill = meths.get("get_alignments"), meths.get("add_alignment"), meths.get("fill_index")
    if not (ga and add and fill):
        raise AnalysisError("InMemoryAlignmentStorage: get_alignments / add_alignment / fill_index not found")
    # small helpers of the class (e.g. a position -> bin function) are expanded in place
    ga, add, fill = (prog.func_inlined(AP, "InMemoryAlignmentStorage." + n_, exclude=("fill_index",))
                     for n_ in ("get_alignments", "add_alignment", "fill_index"))
    n = 0
    # (i) meaning of the two index tables, from add_alignment: key expression and first-occurrence guard
    keys = {}
    defs = local_env(add)
    for st in walk_no_nested(add):
        # first-occurrence store, written as  `if k not in T: T[k] = v`,  `if k in T: ... else: T[k] = v`  or  `T.setdefault(k, v)`
        if isinstance(st, ast.If) and isinstance(st.test, ast.Compare) and isinstance(st.test.ops[0], (ast.NotIn, ast.In)):
            tbl = dotted(st.test.comparators[0])
            branch = st.body if isinstance(st.test.ops[0], ast.NotIn) else st.orelse
            stores = [s for s in branch if isinstance(s, ast.Assign) and isinstance(s.targets[0], ast.Subscript)
                      and dotted(s.targets[0].value) == tbl and src(s.targets[0].slice) == src(st.test.left)]
            if tbl and stores:
                keys[tbl.split(".")[-1]] = (src(symexec.subst(st.test.left, defs)), src(stores[0].value))
        elif isinstance(st, ast.Expr) and isinstance(st.value, ast.Call) and isinstance(st.value.func, ast.Attribute) \
                and st.value.func.attr == "setdefault" and len(st.value.args) == 2:
            tbl = dotted(st.value.func.value)
            if tbl:
                keys[tbl.split(".")[-1]] = (src(symexec.subst(st.value.args[0], defs)), src(st.value.args[1]))
    want = {"alignment_start_index": r"^alignment\.reference_start // [\w.]*COVERAGE_BIN$",
            "alignment_end_index": r"^\(alignment\.reference_end - 1\) // [\w.]*COVERAGE_BIN$"}
    for tbl, rx in want.items():
        n += 1
        if tbl not in keys or not re.match(rx, keys[tbl][0]) or keys[tbl][1] != "self.counter":
            ctx.fail("D7", add, "InMemoryAlignmentStorage.add_alignment", tbl, "the %s table is no longer 'first stored index per 256-bp bin of the "
                     "alignment %s' (found key %s -> %s): the sub-region slices computed from it are wrong"
                     % (tbl, "start" if "start" in tbl else "closed end", keys.get(tbl, ("?", "?"))[0], keys.get(tbl, ("?", "?"))[1]))
        else:
            ctx.ok("D7", "%s:%d" % (AP, add.lineno), "%s[bin] = first stored index whose %s falls into bin (key %s, guarded by 'not in')"
                   % (tbl, "start" if "start" in tbl else "closed end", keys[tbl][0]))
    # (ii) fill_index: descending scans from (last bin of the cluster + c), c >= 1, seeded with len(storage)
    fenv = local_env(fill)
    fill_top = None
    for lp in [l for l in walk_no_nested(fill) if isinstance(l, ast.For)]:
        n += 1
        it = lp.iter
        okr = isinstance(it, ast.Call) and src(it.func) == "range" and len(it.args) == 3 and src(it.args[2]) == "-1"
        c_hi = _bin_offset(it.args[0], fenv, "self.region", 1) if okr else None
        c_lo = _bin_offset(it.args[1], fenv, "self.region", 0) if okr else None
        if not okr or c_hi is None or c_hi < 1 or c_lo is None or c_lo > -1:
            ctx.fail("D7", lp, "InMemoryAlignmentStorage.fill_index", src(lp.iter), "the index is not completed by a descending scan over every bin "
                     "from one past the cluster's last bin down to its first bin: slices for some sub-regions hit missing or wrong entries")
        else:
            fill_top = c_hi if fill_top is None else min(fill_top, c_hi)
            ctx.ok("D7", "%s:%d" % (AP, lp.lineno), "fill_index scans bins last+%d .. first, descending" % c_hi)
    # (ii-b) alignments are stored in START order, so their ends are not monotone: completing the END index has to take the running
    # minimum - an existing entry that is larger than the value carried down from the right is overwritten too
    fill_in = prog.func_inlined(AP, "InMemoryAlignmentStorage.fill_index")
    end_loops = [l for l in walk_no_nested(fill_in) if isinstance(l, ast.For) and any(
        isinstance(st, ast.Assign) and isinstance(st.targets[0], ast.Subscript) and src(st.targets[0].value).endswith("alignment_end_index")
        for st in ast.walk(l))]
    if not end_loops:
        ctx.undecided("D7", fill, "InMemoryAlignmentStorage.fill_index", "no loop completing alignment_end_index found (helpers expanded)")
    for lp in end_loops:
        n += 1
        stores = [st for st in ast.walk(lp) if isinstance(st, ast.Assign) and isinstance(st.targets[0], ast.Subscript)
                  and src(st.targets[0].value).endswith("alignment_end_index")]
        ok_min = False
        for st in stores:
            if isinstance(st.value, ast.Call) and call_name(st.value) == "min":
                ok_min = True
            for g in flow.guards_of(st, stop=lp):
                for x in ast.walk(g.test):
                    if isinstance(x, ast.Compare) and isinstance(x.ops[0], (ast.Gt, ast.GtE, ast.Lt, ast.LtE)) and "alignment_end_index[" in src(x):
                        ok_min = True
        if ok_min:
            ctx.ok("D7", "%s:%d" % (AP, lp.lineno), "the end index is completed as a running minimum")
        else:
            ctx.fail("D7", lp, "InMemoryAlignmentStorage.fill_index", "end index without running minimum",
                     "alignment_end_index is completed like the start index (only missing bins are filled): alignment ends are not sorted, so "
                     "a bin whose recorded entry points behind a longer, earlier alignment keeps that entry, get_alignments starts its "
                     "scan too late and a read that still overlaps the sub-region is never fetched")
    # (iii) get_alignments: slice bounds
    region = ga.args.args[1].arg
    loops = [l for l in walk_no_nested(ga) if isinstance(l, ast.For) and isinstance(l.iter, ast.Call) and src(l.iter.func) == "range"
             and len(l.iter.args) == 2]
    if len(loops) != 1:
        raise AnalysisError("InMemoryAlignmentStorage.get_alignments: index-range loop not found")
    lp = loops[0]
    env = local_env(ga)
    lo_e, hi_e = symexec.subst(lp.iter.args[0], env), symexec.subst(lp.iter.args[1], env)

    def table_key(e, tbl):
        if isinstance(e, ast.Subscript) and dotted(e.value) == "self." + tbl:
            return e.slice
        return None
    n += 2
    ks, ke = table_key(lo_e, "alignment_end_index"), table_key(hi_e, "alignment_start_index")
    c_s = _bin_offset(ks, {}, region, 0) if ks is not None else None
    c_e = _bin_offset(ke, {}, region, 1) if ke is not None else None
    if c_s is None or c_s > 0:
        ctx.fail("D7", lp, "InMemoryAlignmentStorage.get_alignments", "range start %s" % src(lo_e), "the first candidate must be "
                 "alignment_end_index[bin(%s[0]) + c] with c <= 0 (first stored alignment that ends in or after the bin of the region start); "
                 "found %s - alignments overlapping the region start are skipped" % (region, src(lo_e)))
    else:
        ctx.ok("D7", "%s:%d" % (AP, lp.lineno), "slice starts at alignment_end_index[bin(%s[0])%+d]: nothing that ends at/after the region start is skipped" % (region, c_s))
    if c_e is None or c_e < 1:
        ctx.fail("D7", lp, "InMemoryAlignmentStorage.get_alignments", "range end %s" % src(hi_e), "the exclusive upper bound must be "
                 "alignment_start_index[bin(%s[1]) + c] with c >= 1 (first stored alignment that starts after the bin of the region end); found %s - "
                 "alignments that start inside the last 256-bp bin of the requested region are returned for no sub-region (--high_memory)"
                 % (region, src(hi_e)))
    elif fill_top is not None and c_e > fill_top:
        ctx.fail("D7", lp, "InMemoryAlignmentStorage.get_alignments", "range end %s" % src(hi_e), "looks up bin(%s[1])+%d but fill_index only fills "
                 "up to last bin+%d: KeyError for the last sub-region" % (region, c_e, fill_top))
    else:
        ctx.ok("D7", "%s:%d" % (AP, lp.lineno), "slice ends at alignment_start_index[bin(%s[1])%+d] (filled by fill_index): every alignment starting "
               "at or before the region end is a candidate" % (region, c_e))
    # exact filter on candidates and a yield per candidate
    n += 1
    ys = [y for y in ast.walk(lp) if isinstance(y, ast.Yield)]
    gs = [src(g_.test) for y in ys for g_ in flow.guards_of(y, stop=lp)] if ys else []
    want_g = "overlaps(%s, (alignment.reference_start, alignment.reference_end - 1))" % region
    jumps = [x for x in ast.walk(lp) if isinstance(x, (ast.Break, ast.Continue, ast.Return))]
    if len(ys) != 1 or gs != [want_g] or jumps:
        ctx.fail("D7", lp, "InMemoryAlignmentStorage.get_alignments", "candidate filter", "every candidate must be yielded exactly when it overlaps the "
                 "closed region (found guards %s%s)" % (gs, ", early exit" if jumps else ""))
    else:
        ctx.ok("D7", "%s:%d" % (AP, ys[0].lineno), "candidates are yielded iff %s" % want_g)
    fi = [c for c in walk_no_nested(ga) if isinstance(c, ast.Call) and src(c.func) == "self.fill_index"]
    if not fi or fi[0].lineno > lp.lineno:
        ctx.fail("D7", ga, "InMemoryAlignmentStorage.get_alignments", "self.fill_index()", "the index is not completed before it is used")
    # (iv) BAM sibling: closed region -> half-open fetch
    n += 1
    st_ = prog.func(AP, "BAMOnlineMerger._set")
    fetch = [c for c in ast.walk(st_) if isinstance(c, ast.Call) and isinstance(c.func, ast.Attribute) and c.func.attr == "fetch"]
    okf = False
    if len(fetch) == 1 and len(fetch[0].args) >= 3:
        d0 = _const_diff(fetch[0].args[1], ast.parse("self.start", mode="eval").body)
        d1_ = _const_diff(fetch[0].args[2], ast.parse("self.end", mode="eval").body)
        okf = d0 is not None and d0 <= 0 and d1_ is not None and d1_ >= 1
    bg = prog.func(AP, "BAMAlignmentStorage.get_alignments")
    mk = [c for c in ast.walk(bg) if isinstance(c, ast.Call) and call_name(c) == "BAMOnlineMerger"]
    okm = len(mk) == 1 and len(mk[0].args) >= 4 and src(mk[0].args[2]) == "region[0]" and src(mk[0].args[3]) == "region[1]"
    if not okf or not okm:
        ctx.fail("D7", fetch[0] if fetch else st_, "BAMOnlineMerger._set / BAMAlignmentStorage.get_alignments", "fetch bounds",
                 "the closed region (start, end) must be fetched as the half-open interval [start, end + 1): alignments starting at the last "
                 "position of a sub-region are not fetched")
    else:
        ctx.ok("D7", "%s:%d" % (AP, fetch[0].lineno), "BAM storage fetches [region[0], region[1] + 1): the closed region")
    ctx.floor("D7", "index-table, fill, slice-bound and fetch obligations", n, 6)


from ..engine.dataflow import single_def_env as local_env  # noqa: E402


def d8(prog, ctx):
    """Records compared by the duplicate search: equal records hash equally (hash fields are a subset of the __eq__ fields)."""
    n = 0
    for m, q, c in prog.all_classes():
        meths = prog.methods_of(c, inherited=False)
        if "__eq__" not in meths:
            continue
        n += 1
        eqf = {x.attr for x in walk_no_nested(meths["__eq__"]) if isinstance(x, ast.Attribute) and isinstance(x.value, ast.Name)
               and x.value.id == "self"}
        if "__hash__" not in meths:
            ctx.ok("D8", "%s:%d" % (m.rel, c.lineno), "%s defines __eq__ over %s and no __hash__ (unhashable: cannot be de-duplicated through a "
                   "dict/set by mistake)" % (c.name, sorted(eqf)))
            continue
        hf = {x.attr for x in walk_no_nested(meths["__hash__"]) if isinstance(x, ast.Attribute) and isinstance(x.value, ast.Name)
              and x.value.id == "self"}
        extra = sorted(hf - eqf)
        if extra:
            ctx.fail("D8", meths["__hash__"], "%s.__hash__" % c.name, "hash over %s, __eq__ over %s" % (sorted(hf), sorted(eqf)),
                     "%s.__hash__ depends on %s, which __eq__ ignores: two records that compare equal (the same alignment seen in two "
                     "sub-regions differs exactly in such a field) land in different hash buckets, so a dict/set based duplicate search "
                     "keeps both and the read is reported twice" % (c.name, extra))
        else:
            ctx.ok("D8", "%s:%d" % (m.rel, meths["__hash__"].lineno), "%s: hash fields %s are a subset of the __eq__ fields" % (c.name, sorted(hf)))
    ctx.floor("D8", "classes defining __eq__", n, 1)


def d9(prog, ctx):
    """Every multimap strategy the program can select removes sub-region duplicates before it suspends anything."""
    MR = "src/multimap_resolver.py"
    iq = prog.module("isoquant.py")
    values = {}
    for q, f in iq.functions.items():
        for st in walk_no_nested(f):
            if isinstance(st, ast.Assign) and any(dotted(t) == "args.multimap_strategy" for t in st.targets):
                vals = [st.value]
                if isinstance(st.value, ast.Name):
                    vals = [d.value for d in walk_no_nested(f) if isinstance(d, ast.Assign) and any(dotted(t) == st.value.id for t in d.targets)] or vals
                for v_ in vals:
                    for x in ast.walk(v_):
                        if isinstance(x, ast.Constant) and isinstance(x.value, str):
                            values.setdefault(x.value, st)
                if isinstance(st.value, ast.Attribute) and dotted(st.value).startswith("args."):
                    values.setdefault("<user option %s>" % dotted(st.value), st)
    if not values:
        raise AnalysisError("isoquant.py: no assignment of a strategy name to args.multimap_strategy found")
    cls = prog.cls(MR, "MultimapResolver")
    meths = prog.methods_of(cls, inherited=False)
    calls = {}
    for name, f in meths.items():
        # calls of sibling methods, and references to them (a method stored in a table and called through it is a possible callee)
        calls[name] = {a.attr for a in ast.walk(f) if isinstance(a, ast.Attribute) and isinstance(a.ctx, ast.Load)
                       and dotted(a.value) in ("self", "MultimapResolver") and a.attr in meths}

    def reaches(name, seen=()):
        if name == "find_duplicates":
            return True
        return any(reaches(x, seen + (name,)) for x in calls.get(name, ()) if x not in seen)
    res = meths["resolve"]
    branches = {}
    for i in [x for x in walk_no_nested(res) if isinstance(x, ast.If)]:
        # (the strategy may have been taken into a local first: strategy = self.strategy if ... )
        mm = re.search(r"(?:self\.)?strategy == MultimapResolvingStrategy\.(\w+)", src(i.test))
        if mm:
            branches[mm.group(1)] = i
    for v, st in sorted(values.items()):
        if v.startswith("<user option"):
            todo = sorted(branches)
        elif not branches:
            ctx.undecided("D9", res, "MultimapResolver.resolve", "no `strategy == MultimapResolvingStrategy.X` branches found")
        elif v not in branches:
            ctx.fail("D9", st, "set_additional_params", src(st)[:80], "strategy %r has no branch in MultimapResolver.resolve" % v)
            continue
        else:
            todo = [v]
        for b in todo:
            body = branches[b].body
            dedup = any(isinstance(c, ast.Call) and isinstance(c.func, ast.Attribute) and c.func.attr in meths and reaches(c.func.attr)
                        for s_ in body for c in ast.walk(s_))
            if dedup:
                ctx.ok("D9", "%s:%d" % (MR, branches[b].lineno), "strategy %s (selectable via %s) resolves through find_duplicates" % (b, src(st)[:50]))
            else:
                ctx.fail("D9", st, "set_additional_params", "%s -> resolve() branch %s" % (src(st)[:70], b),
                         "args.multimap_strategy can be %r, and MultimapResolver.resolve handles that strategy without passing through "
                         "find_duplicates: an alignment fetched for two sub-regions of a split cluster has two identical records, and this "
                         "branch suspends them (all) instead of keeping one - a primary alignment is lost only because of where the "
                         "cluster was cut" % b)


def d10(prog, ctx):
    """The statistics block logged for an experiment is that experiment's own."""
    from . import c10 as _c10
    DSPM = "src/dataset_processor.py"
    n = 0
    for m, q, f in prog.all_functions():
        if m.rel != DSPM or getattr(f, "_class", None) is None or f._class.name != "DatasetProcessor":
            continue
        for c in walk_no_nested(f):
            if isinstance(c, ast.Call) and isinstance(c.func, ast.Attribute) and c.func.attr in ("print_start", "dump") \
                    and (dotted(c.func.value) or "").startswith("self.") and "stat" in dotted(c.func.value):
                n += 1
                loc = ".".join(dotted(c.func.value).split(".")[:2])
                state, node = _c10.driver_location_state(prog, loc)
                if state == "fresh":
                    ctx.ok("D10", "%s:%d" % (DSPM, c.lineno), "%s: %s is freshly created for every experiment before %s()" % (q, loc, c.func.attr))
                else:
                    ctx.fail("D10", node if node is not None else c, q, src(c)[:90],
                             "%s is %s in the per-experiment loop (no unconditional fresh write before its first use in an iteration): the "
                             "alignment statistics %s for the second experiment of a run include the records of the first"
                             % (loc, state, "logged" if c.func.attr == "print_start" else "saved"))
    ctx.floor("D10", "statistics print/dump sites in DatasetProcessor", n, 2)


def run(prog, ctx):
    ctx.rule("D11", "rule M8 of C08 run for C05: the per-chromosome container of processed records keeps one element per record (a read "
                    "with two records is resolved, not reported twice)")
    from . import c08 as _c08
    _c08.m8(prog, ctx, tag="D11")
    ctx.rule("D5", "every mutable attribute initialised by a storage class's __init__ is re-initialised to the same value by its "
                   "reset() (and base reset is chained); the duplicate search loops have no early exit")
    ctx.rule("D1", "inventory of the read path (process -> process_genic/intergenic -> temp file -> loader -> stage-2 loop -> printers): "
                   "every continue/return/break before a read is forwarded is controlled only by atoms of the documented filter "
                   "vocabulary; forwarding statements are unconditional; final printers use PrintAllFunctor")
    ctx.rule("D2", "process_genic and process_intergenic apply the same pre-filter atoms around AlignmentInfo construction")
    ctx.rule("D3", "forward_alignments yields once per split region with no early exit; unsplit branch forwards the whole storage; "
                   "storage is forwarded before every reset and flushed after the loop")
    ctx.rule("D4", "the statistics chain at the top of the record loop is an if/elif partition secondary|supplementary|mapped; "
                   "unaligned comes from the BAM index once per file; per-chromosome stats merged once")
    d1(prog, ctx)
    d2(prog, ctx)
    d3(prog, ctx)
    d4(prog, ctx)
    d5(prog, ctx)
    ctx.rule("D6", "split_coverage_regions tiles the cluster: walking every syntactic path (loops 0/1 times, plus two consecutive "
                   "iterations of the splitting loop) with a ghost 'covered up to' expression, every appended (start, end) has "
                   "start <= covered + 1 in linear normal form (clamps to the cluster bounds stripped), and every returned list either "
                   "is [genomic_region] or provably reaches genomic_region[1] (syntactically, or by a path condition)")
    ctx.rule("D7", "InMemoryAlignmentStorage: index tables keep the first stored index per start / closed-end bin; fill_index scans "
                   "descending from last bin + c (c >= 1); get_alignments slices [end_index[bin(region[0]) + a], start_index[bin(region[1]) + b]) "
                   "with a <= 0, 1 <= b <= c, and yields a candidate iff it overlaps the closed region; the BAM sibling fetches "
                   "[region[0], region[1] + 1)")
    d6(prog, ctx)
    d7(prog, ctx)
    ctx.rule("D8", "for every class defining __eq__: no __hash__, or the self-attributes read by __hash__ are a subset of those read by __eq__")
    ctx.rule("D9", "every strategy name that isoquant.py can assign to args.multimap_strategy selects a branch of MultimapResolver.resolve "
                   "that reaches find_duplicates (class-level call graph): only such a branch keeps one of the identical records an "
                   "alignment gets in two sub-regions")
    d8(prog, ctx)
    ctx.rule("D10", "the statistics object whose counts are logged / saved per experiment is a DatasetProcessor location written unconditionally, "
                    "before any use, in every iteration of the per-experiment loop")
    d10(prog, ctx)
    d9(prog, ctx)
    ctx.assume("D6/D7 take as given that the coverage bins of a cluster are exactly the 256-bp bins its alignments touch "
               "(AbstractAlignmentStorage.add_alignment) and that stored alignments are sorted by start (BAM order through the priority-queue merger); "
               "where the valleys fall is runtime data and is not decided - only that wherever they fall, the pieces cover the cluster")
    ctx.assume("duplicate suppression and equality of counts are value-level and not decided")
