"""C05 - every aligned read is accounted for (structural "who may drop a read" part).

D1 inventory of every place an alignment can leave the pipeline; each is guarded only by documented filter atoms
D2 genic / intergenic siblings apply the same pre-filters
D3 all sub-regions are processed (no early exit), final flush exists
D4 the alignment statistics chain is a partition of the records
"""
import ast
import re

from ..engine.program import AnalysisError, dotted, src, walk_no_nested, call_name
from ..engine import flow

AP = "src/alignment_processor.py"
DSP = "src/dataset_processor.py"
AIO = "src/assignment_io.py"

# documented filter vocabulary: regex on the normalised atom text -> reason
VOCAB = [
    (r"^alignment\.reference_id == -1$", "unmapped record"),
    (r"^alignment\.is_supplementary$", "supplementary alignments are not used (documented)"),
    (r"^self\.params\.no_secondary$", "--no_secondary option"),
    (r"^alignment\.is_secondary$", "secondary flag (with no_secondary / simple-alignment rule)"),
    (r"^self\.params\.min_mapq$", "--min_mapq option set"),
    (r"^alignment\.mapping_quality < self\.params\.(min_mapq|inconsistent_mapq_cutoff|simple_alignments_mapq_cutoff)$", "MAPQ cut-offs"),
    (r"^alignment_info\.read_exons$", "no aligned exons"),
    (r"^len\(alignment_info\.read_exons\) <= 2$", "simple (<= 2 exon) alignments, only with secondary/MAPQ atom"),
    (r"^read_assignment\.assignment_type in \[ReadAssignmentType\.unique, ReadAssignmentType\.unique_minor_difference, ReadAssignmentType\.ambiguous\]$",
     "inconsistent assignment, only with the MAPQ atom"),
    (r"^resolved_assignment$", "no resolved record for a multimapper (logged)"),
    (r"^resolved_assignment\.assignment_type == ReadAssignmentType\.suspended$", "multimap verdict (C08)"),
    (r"^self\.multimapped_chr_dict is not None$", "multimap table present"),
    (r"^read_assignment\.read_id in self\.multimapped_chr_dict$", "read is multi-mapped"),
    (r"^read_assignment is None$", "None guard"),
    (r"^read_assignment\.(assignment_type|isoform_matches|exons|gene_info) is None$", "None guard"),
    (r"^hasattr\(read_assignment, 'gene_info'\)$", "None guard"),
    (r"^self\.assignment_checker is None$", "printer filter object (PrintAll at all final-output construction sites)"),
    (r"^self\.assignment_checker\.check\(read_assignment\)$", "printer filter object (PrintAll at all final-output construction sites)"),
]
REQUIRES_MAPQ = (r"len\(alignment_info\.read_exons\) <= 2", r"read_assignment\.assignment_type in \[")


def vocab_reason(atom_text):
    for rx, why in VOCAB:
        if re.match(rx, atom_text):
            return why
    return None


def drop_sites(scope, stop):
    """Continue/Return(None)/Break nodes with the If tests that control them (inside `scope`)."""
    out = []
    for n in ast.walk(scope):
        if isinstance(n, (ast.FunctionDef, ast.Lambda)) and n is not scope:
            continue
        if isinstance(n, (ast.Continue, ast.Break)) or (isinstance(n, ast.Return) and (n.value is None or
                                                         (isinstance(n.value, ast.Constant) and n.value.value is None))):
            tests = []
            cur = n
            while cur is not None and cur is not scope:
                parent = getattr(cur, "_parent", None)
                if isinstance(parent, ast.If):
                    tests.append(parent.test)
                cur = parent
            out.append((n, tests))
    return out


def check_sites(ctx, q, f, scope, sites, rel):
    n = 0
    for node, tests in sites:
        n += 1
        atoms = []
        for t in tests:
            atoms.extend(flow.atoms(t))
        texts = [src(a) for a in atoms]
        unknown = [t for t in texts if vocab_reason(t) is None]
        if not tests:
            ctx.fail("D1", node, q, src(node), "an unconditional %s ends read processing here" % type(node).__name__.lower())
            continue
        if unknown:
            ctx.fail("D1", node, q, "if %s: %s" % (" / ".join(src(t) for t in tests), src(node)),
                     "an alignment can be dropped here depending on %s, which is not one of the documented filters (mapped, not "
                     "supplementary, secondary policy, MAPQ cut-offs, no exons, multimap verdict, None guards)" % unknown)
            continue
        need_mapq = [t for t in texts if any(re.match(rx, t) for rx in REQUIRES_MAPQ)]
        if need_mapq and not any("mapping_quality <" in t or t == "alignment.is_secondary" for t in texts):
            ctx.fail("D1", node, q, "if %s: %s" % (" / ".join(src(t) for t in tests), src(node)),
                     "atom %s may drop a read only together with a MAPQ / secondary atom" % need_mapq)
            continue
        ctx.ok("D1", "%s:%d" % (rel, node.lineno), "%s drop site guarded by {%s}" % (q.split(".")[-1], "; ".join(texts)))
    return n


def d1(prog, ctx):
    total = 0
    # 1. raw loop: every record is added to the storage
    f = prog.func(AP, "AlignmentCollector.process")
    loops = [l for l in f.body if isinstance(l, ast.For)]
    if len(loops) != 1:
        raise AnalysisError("AlignmentCollector.process: record loop not found")
    loop = loops[0]
    jumps = [n for n in ast.walk(loop) if isinstance(n, (ast.Continue, ast.Break, ast.Return))]
    adds = [st for st in loop.body if isinstance(st, ast.Expr) and "alignment_storage.add_alignment(" in src(st)]
    if jumps or len(adds) != 1:
        ctx.fail("D1", (jumps or [loop])[0], f._qualname, src((jumps or [loop])[0])[:80],
                 "the record loop must add every alignment to the storage unconditionally (no continue/break/return)")
    else:
        ctx.ok("D1", "%s:%d" % (AP, adds[0].lineno), "process: every record reaches alignment_storage.add_alignment")
    total += 1
    # 2. per-region processing loops
    for q in ("AlignmentCollector.process_genic", "AlignmentCollector.process_intergenic"):
        f = prog.func(AP, q)
        loops = [l for l in f.body if isinstance(l, ast.For)]
        if len(loops) != 1:
            raise AnalysisError("%s: alignment loop not found" % q)
        loop = loops[0]
        total += check_sites(ctx, q, f, loop, drop_sites(loop, f), AP)
        fw = [st for st in loop.body if isinstance(st, ast.Expr) and src(st) == "assignment_storage.append(read_assignment)"]
        if len(fw) != 1:
            ctx.fail("D1", loop, q, "assignment_storage.append", "the assignment is not appended unconditionally at the end of the iteration")
        else:
            ctx.ok("D1", "%s:%d" % (AP, fw[0].lineno), "%s: surviving read appended unconditionally" % q.split(".")[-1])
        rets = [r for r in walk_no_nested(f) if isinstance(r, ast.Return)]
        if [src(r) for r in rets] != ["return assignment_storage"]:
            ctx.fail("D1", f, q, "return", "the region's assignment list is not returned as a whole")
    # 3. stage 1 -> temp file
    f = prog.func(DSP, "collect_reads_in_parallel")
    outer = [l for l in walk_no_nested(f) if isinstance(l, ast.For) and "alignment_collector.process()" in src(l.iter)]
    if len(outer) != 1:
        raise AnalysisError("collect_reads_in_parallel: main loop not found")
    inner = [l for l in outer[0].body if isinstance(l, ast.For)]
    jumps = [n for n in ast.walk(outer[0]) if isinstance(n, (ast.Continue, ast.Break, ast.Return))]
    okw = inner and any(src(st) == "tmp_printer.add_read_info(read_assignment)" for st in inner[0].body)
    if jumps or not okw:
        ctx.fail("D1", (jumps or [outer[0]])[0], f._qualname, src((jumps or [outer[0]])[0])[:80],
                 "every read assignment of every region must be written to the temp file unconditionally")
    else:
        ctx.ok("D1", "%s:%d" % (DSP, inner[0].lineno), "collect_reads_in_parallel: every assignment written to the save file")
    total += 1
    # 4. printers and loader
    for rel, q in ((AIO, "TmpFileAssignmentPrinter.add_read_info"), (AIO, "BEDPrinter.add_read_info"),
                   (AIO, "BasicTSVAssignmentPrinter.add_read_info")):
        f = prog.func(rel, q)
        sites = [(n, t) for n, t in drop_sites(f, f)]
        # returns after a completed write are not drops: keep only those before the first write on their branch
        real = []
        for n, t in sites:
            prev_write = any(isinstance(s, ast.Expr) and ".write(" in src(s) and s.lineno < n.lineno and s._parent is n._parent
                             for s in ast.walk(f))
            if not prev_write:
                real.append((n, t))
        total += check_sites(ctx, q, f, f, real, rel)
    g = prog.func(DSP, "ReadAssignmentLoader.get_next")
    wl = [l for l in g.body if isinstance(l, ast.While)]
    if len(wl) != 1:
        raise AnalysisError("get_next: record loop not found")
    total += check_sites(ctx, g._qualname, g, wl[0], drop_sites(wl[0], g), DSP)
    # 5. stage 2 loop
    f = prog.func(DSP, "construct_models_in_parallel")
    loops = [l for l in ast.walk(f) if isinstance(l, ast.For) and src(l.iter) == "assignment_storage"]
    if len(loops) != 1:
        raise AnalysisError("construct_models_in_parallel: per-read loop not found")
    total += check_sites(ctx, f._qualname, f, loops[0], drop_sites(loops[0], f), DSP)
    calls = [src(st) for st in loops[0].body if isinstance(st, ast.Expr)]
    for need in ("aggregator.global_printer.add_read_info(read_assignment)", "aggregator.global_counter.add_read_info(read_assignment)"):
        if need not in calls:
            ctx.fail("D1", loops[0], f._qualname, need, "stage 2 does not forward every loaded read to %s unconditionally" % need.split("(")[0])
        else:
            ctx.ok("D1", "%s:%d" % (DSP, loops[0].lineno), "stage 2: %s for every loaded read" % need.split("(")[0])
    # 6. printers of final outputs are built with the print-all checker
    agg = prog.func(DSP, "ReadAssignmentAggregator.__init__")
    for c in walk_no_nested(agg):
        if isinstance(c, ast.Call) and call_name(c) in ("BEDPrinter", "BasicTSVAssignmentPrinter"):
            if any(k.arg == "assignment_checker" for k in c.keywords) or (call_name(c) == "BEDPrinter" and len(c.args) > 3):
                ctx.fail("D1", c, agg._qualname, src(c)[:90], "a final-output printer is constructed with a filtering assignment_checker")
            else:
                ctx.ok("D1", "%s:%d" % (DSP, c.lineno), "%s built with the default PrintAllFunctor" % call_name(c))
    for m_, q_, f_ in prog.all_functions():
        for st in walk_no_nested(f_):
            if isinstance(st, ast.Assign):
                for t in st.targets:
                    if isinstance(t, ast.Attribute) and t.attr == "assignment_checker" and q_ != "AbstractAssignmentPrinter.__init__":
                        ctx.fail("D1", st, q_, src(st), "a printer's assignment_checker is rebound after construction: reads can be "
                                 "filtered out of the final outputs")
    pa = prog.cls(AIO, "PrintAllFunctor")
    chk = prog.methods_of(pa).get("check")
    if chk is None or [src(s) for s in chk.body] != ["return True"]:
        ctx.fail("D1", pa, "PrintAllFunctor.check", "check", "PrintAllFunctor.check no longer accepts every assignment")
    ctx.floor("D1", "drop sites and forwarding obligations", total, 14)


def d2(prog, ctx):
    sets = {}
    for q in ("AlignmentCollector.process_genic", "AlignmentCollector.process_intergenic"):
        f = prog.func(AP, q)
        loop = [l for l in f.body if isinstance(l, ast.For)][0]
        ai = [st for st in loop.body if isinstance(st, ast.Assign) and "AlignmentInfo(alignment)" in src(st.value)]
        if len(ai) != 1:
            raise AnalysisError("%s: AlignmentInfo construction not found" % q)
        cut = ai[0].lineno
        atoms = set()
        for node, tests in drop_sites(loop, f):
            if node.lineno <= cut + 4:      # pre-filters and the 'no aligned exons' test right after construction
                for t in tests:
                    atoms |= {src(a) for a in flow.atoms(t)}
        sets[q] = atoms
    a, b = sets["AlignmentCollector.process_genic"], sets["AlignmentCollector.process_intergenic"]
    if a != b:
        ctx.fail("D2", prog.func(AP, "AlignmentCollector.process_intergenic"), "process_genic / process_intergenic",
                 "only genic: %s; only intergenic: %s" % (sorted(a - b), sorted(b - a)),
                 "the alignment pre-filters differ between annotated and unannotated regions: %s" % sorted(a ^ b))
    else:
        ctx.ok("D2", AP, "genic and intergenic pre-filters agree: %s" % sorted(a))


def d3(prog, ctx):
    f = prog.func(AP, "AlignmentCollector.forward_alignments")
    loops = [l for l in walk_no_nested(f) if isinstance(l, ast.For) and src(l.iter) == "split_regions"]
    if len(loops) != 1:
        ctx.fail("D3", f, f._qualname, "loop over split_regions", "no single loop over all split regions")
        return
    l = loops[0]
    jumps = [n for n in ast.walk(l) if isinstance(n, (ast.Continue, ast.Break, ast.Return))]
    ys = [st for st in l.body if isinstance(st, ast.Expr) and isinstance(st.value, ast.Yield)]
    if jumps or len(ys) != 1:
        ctx.fail("D3", (jumps or [l])[0], f._qualname, src((jumps or [l])[0])[:80],
                 "the sub-region loop must yield every region's result exactly once, with no early exit")
    else:
        y = ys[0].value.value
        tgt = src(l.target)
        if not (isinstance(y, ast.Call) and src(y.args[0]) == tgt and tgt in src(l.body[0])):
            ctx.fail("D3", ys[0], f._qualname, src(ys[0]), "yielded result is not that of the loop's own region")
        else:
            ctx.ok("D3", "%s:%d" % (AP, l.lineno), "every split region is fetched and processed, no early exit")
    single = [st for st in ast.walk(f) if isinstance(st, ast.Expr) and isinstance(st.value, ast.Yield)
              and "alignment_storage.get_alignments()" in src(st)]
    if len(single) != 1:
        ctx.fail("D3", f, f._qualname, "single-region branch", "the unsplit branch does not forward the whole storage")
    else:
        ctx.ok("D3", "%s:%d" % (AP, single[0].lineno), "unsplit region forwards the whole storage")
    p = prog.func(AP, "AlignmentCollector.process")
    tail = p.body[-1]
    okt = isinstance(tail, ast.If) and src(tail.test) == "alignment_storage.region" and "self.forward_alignments(alignment_storage)" in src(tail)
    if not okt:
        ctx.fail("D3", p, p._qualname, "final flush", "the last region is not flushed after the record loop")
    else:
        ctx.ok("D3", "%s:%d" % (AP, tail.lineno), "final region flushed after the loop")
    # flush before reset inside the loop
    loop = [l for l in p.body if isinstance(l, ast.For)][0]
    na = [i for i in loop.body if isinstance(i, ast.If) and "alignment_is_not_adjacent" in src(i.test)]
    if len(na) != 1 or not (src(na[0].body[-1]) == "alignment_storage.reset()" and "forward_alignments" in src(na[0].body[0])):
        ctx.fail("D3", loop, p._qualname, "region switch", "storage is not forwarded before it is reset at a region boundary")
    else:
        ctx.ok("D3", "%s:%d" % (AP, na[0].lineno), "storage forwarded, then reset, at every region boundary")
    # split_coverage_regions: first region starts at genomic_region[0]... (value-level) - not decided


def d4(prog, ctx):
    p = prog.func(AP, "AlignmentCollector.process")
    loop = [l for l in p.body if isinstance(l, ast.For)][0]
    first = loop.body[0]
    want = [("alignment.is_secondary", "secondary"), ("alignment.is_supplementary", "supplementary"),
            ("alignment.reference_id != -1", "primary")]
    got = []
    node = first
    while isinstance(node, ast.If):
        adds = [c for st in node.body for c in ast.walk(st) if isinstance(c, ast.Call) and src(c.func) == "self.alignment_stat_counter.add"]
        cat = dotted(adds[0].args[0]).split(".")[-1] if len(adds) == 1 and len(node.body) == 1 else "?"
        got.append((src(node.test), cat))
        node = node.orelse[0] if len(node.orelse) == 1 and isinstance(node.orelse[0], ast.If) else None
    if got != want:
        ctx.fail("D4", first, p._qualname, str(got), "the statistics chain must count each record in exactly one of secondary / "
                 "supplementary / primary(mapped), as an if/elif chain at the top of the record loop (found %s)" % got)
    else:
        ctx.ok("D4", "%s:%d" % (AP, first.lineno), "stats chain: secondary | supplementary | mapped primary, mutually exclusive, once per record")
    # unaligned count added once per BAM file from the index
    c = prog.func(DSP, "DatasetProcessor.collect_reads")
    un = [x for x in walk_no_nested(c) if isinstance(x, ast.Call) and "AlignmentType.unaligned" in src(x)]
    if len(un) != 1 or "bam.unmapped" not in src(un[0]):
        ctx.fail("D4", c, c._qualname, "unaligned", "unaligned reads are not counted once per BAM from its index")
    else:
        ctx.ok("D4", "%s:%d" % (DSP, un[0].lineno), "unaligned = bam.unmapped per input file")
    mg = [x for x in walk_no_nested(c) if isinstance(x, ast.Call) and src(x.func) == "self.alignment_stat_counter.merge"]
    if len(mg) != 1:
        ctx.fail("D4", c, c._qualname, "merge", "per-chromosome alignment statistics are not merged exactly once each")
    else:
        ctx.ok("D4", "%s:%d" % (DSP, mg[0].lineno), "per-chromosome stats merged once per result")


def d5(prog, ctx):
    """reset() of the alignment storages re-initialises every mutable attribute the constructor sets
    (state leaking from one alignment cluster into the next makes get_alignments return wrong slices)."""
    n = 0
    for m, q, c in prog.all_classes():
        if m.rel != AP:
            continue
        meths = prog.methods_of(c, inherited=False)
        if "reset" not in meths or "__init__" not in meths:
            continue
        n += 1

        def attrs_set(f):
            out = {}
            for st in walk_no_nested(f):
                if isinstance(st, ast.Assign):
                    for t in st.targets:
                        d = dotted(t)
                        if d and d.startswith("self.") and d.count(".") == 1:
                            out[d[5:]] = st
            return out
        init, reset = attrs_set(meths["__init__"]), attrs_set(meths["reset"])
        # base reset must be chained if the base has one
        for attr, st in sorted(init.items()):
            v = st.value
            mutable = isinstance(v, (ast.Dict, ast.List, ast.Set)) or (isinstance(v, ast.Call) and (call_name(v) or "") in
                                                                        ("defaultdict", "dict", "list", "set")) \
                or (isinstance(v, ast.Constant) and isinstance(v.value, (int, bool)) and not isinstance(v.value, str)) \
                or (isinstance(v, ast.Constant) and v.value is None)
            if not mutable:
                continue
            if attr in ("bam_merger",):
                continue
            if attr not in reset:
                ctx.fail("D5", meths["reset"], "%s.reset" % c.name, "self.%s" % attr,
                         "%s.__init__ initialises self.%s but reset() does not: the index/state of one alignment cluster leaks into "
                         "the next one and get_alignments() selects reads with stale bounds" % (c.name, attr))
            elif src(reset[attr].value) != src(v):
                ctx.fail("D5", reset[attr], "%s.reset" % c.name, src(reset[attr]), "reset() sets self.%s to %s, the constructor to %s"
                         % (attr, src(reset[attr].value), src(v)))
            else:
                ctx.ok("D5", "%s:%d" % (AP, reset[attr].lineno), "%s.reset re-initialises self.%s" % (c.name, attr))
        bases = [dotted(b) for b in c.bases]
        for b in bases:
            bc = prog.find_class(b.split(".")[-1]) if b else []
            if bc and "reset" in prog.methods_of(bc[0][1], inherited=False):
                if "%s.reset(self)" % b not in src(meths["reset"]) and "super().reset()" not in src(meths["reset"]):
                    ctx.fail("D5", meths["reset"], "%s.reset" % c.name, "base reset", "reset() does not chain to %s.reset" % b)
    ctx.floor("D5", "storage classes with reset()", n, 3)
    # duplicate search must compare every pair: no early exit from either loop
    fd = prog.func("src/multimap_resolver.py", "MultimapResolver.find_duplicates")
    loops = [l for l in walk_no_nested(fd) if isinstance(l, ast.For)]
    if len(loops) < 2:
        raise AnalysisError("find_duplicates: nested comparison loops not found")
    jumps = [x for l in loops for x in ast.walk(l) if isinstance(x, (ast.Break, ast.Return))]
    if jumps:
        ctx.fail("D5", jumps[0], fd._qualname, src(jumps[0]), "the duplicate search leaves a loop early: with three or more copies of a "
                 "record (read seen in three sub-regions) only some are discarded and identical records are reported twice")
    else:
        ctx.ok("D5", "src/multimap_resolver.py:%d" % fd.lineno, "find_duplicates compares every remaining pair (no break/return in the loops)")


def run(prog, ctx):
    ctx.rule("D5", "every mutable attribute initialised by a storage class's __init__ is re-initialised to the same value by its "
                   "reset() (and base reset is chained); the duplicate search loops have no early exit")
    ctx.rule("D1", "inventory of the read path (process -> process_genic/intergenic -> temp file -> loader -> stage-2 loop -> printers): "
                   "every continue/return/break before a read is forwarded is controlled only by atoms of the documented filter "
                   "vocabulary; forwarding statements are unconditional; final printers use PrintAllFunctor")
    ctx.rule("D2", "process_genic and process_intergenic apply the same pre-filter atoms around AlignmentInfo construction")
    ctx.rule("D3", "forward_alignments yields once per split region with no early exit; unsplit branch forwards the whole storage; "
                   "storage is forwarded before every reset and flushed after the loop")
    ctx.rule("D4", "the statistics chain at the top of the record loop is an if/elif partition secondary|supplementary|mapped; "
                   "unaligned comes from the BAM index once per file; per-chromosome stats merged once")
    d1(prog, ctx)
    d2(prog, ctx)
    d3(prog, ctx)
    d4(prog, ctx)
    d5(prog, ctx)
    ctx.assume("whether coverage-valley splitting and the per-region re-fetch return every overlapping alignment is bin arithmetic on "
               "runtime coordinates and is NOT decided (a defect of InMemoryAlignmentStorage.get_alignments in exactly that part is "
               "described in DESIGN.md section 7)")
    ctx.assume("duplicate suppression and equality of counts are value-level and not decided")
