"""C10 - experiments processed in one invocation are independent (structural part).

S1 no state that outlives an experiment is read (or read-modified) in an iteration before it was freshly written in it:
   driver-object attributes (DatasetProcessor self.*, shared args namespace), class-level and module-level mutable state.
"""
import ast

from ..engine.program import AnalysisError, dotted, src, walk_no_nested, call_name
from ..engine import carried

DSP = "src/dataset_processor.py"

# carried locations whose value cannot influence any output, with the reason (triage by reading)
BENIGN_CLASS_STATE = {
    ("ReadAssignment", "assignment_id_generator"):
        "opaque identity: assignment ids are only compared with ids stored in the same experiment's save files (together with chr_id)",
    ("FeatureInfo", "feature_id_counter"):
        "opaque identity: used as dict key only; output order follows OrderedDict insertion, never the id value",
    ("MultimapResolver", "duplicate_counter"):
        "selects logger.info vs logger.debug for duplicate warnings only",
}
BENIGN_SELF_STATE = {}


def constant_derived_locations(prog):
    """Driver-object locations that are written while an experiment is processed, but only with values computed from locations that no
    experiment ever writes (the reference, the run arguments that stay untouched, constants): a memo of run-constant data - whoever fills
    it, and whenever, the content is the same, so it carries nothing from one experiment (or from a skipped stage) to the next."""
    cls = prog.cls(DSP, "DatasetProcessor")
    seq = carried.Linearizer(prog, cls).run("process_sample")
    writes = {}
    for loc, kind, uncond, f, st in seq:
        if kind in ("write", "rmw"):
            writes.setdefault(loc, []).append((kind, st))
    import builtins
    derived = set()
    changed = True
    while changed:
        changed = False
        for loc, ws in writes.items():
            if loc in derived:
                continue
            ok = True
            for kind, st in ws:
                if kind != "write" or not isinstance(st, ast.Assign):
                    ok = False
                    break
                lam = {a.arg for l in ast.walk(st.value) if isinstance(l, ast.Lambda) for a in l.args.args}
                comp = {x.id for c in ast.walk(st.value) if isinstance(c, ast.comprehension) for x in ast.walk(c.target) if isinstance(x, ast.Name)}
                for x in ast.walk(st.value):
                    if isinstance(x, ast.Name) and x.id != "self" and x.id not in lam and x.id not in comp and not hasattr(builtins, x.id):
                        ok = False
                    if isinstance(x, ast.Attribute) and isinstance(x.value, ast.Name) and x.value.id == "self":
                        src_loc = "self." + x.attr
                        if src_loc != loc and src_loc in writes and src_loc not in derived:
                            ok = False
                    if isinstance(x, ast.Call) and isinstance(x.func, ast.Attribute) and isinstance(x.func.value, ast.Name) and x.func.value.id == "self":
                        ok = False          # a method call may read anything
            if ok:
                derived.add(loc)
                changed = True
    return derived


def s1_driver(prog, ctx):
    cls = prog.cls(DSP, "DatasetProcessor")
    # the loop
    pas = prog.func(DSP, "DatasetProcessor.process_all_samples")
    loops = [l for l in walk_no_nested(pas) if isinstance(l, ast.For) and "samples" in src(l.iter)]
    if len(loops) != 1 or "self.process_sample(" not in src(loops[0]):
        raise AnalysisError("process_all_samples: per-experiment loop calling self.process_sample not found")
    lin = carried.Linearizer(prog, cls)
    seq = lin.run("process_sample")
    by_loc = {}
    for loc, kind, uncond, f, st in seq:
        by_loc.setdefault(loc, []).append((kind, uncond, f, st))
    n = 0
    const_derived = constant_derived_locations(prog)
    for loc in sorted(by_loc):
        acc = by_loc[loc]
        writes_any = [a for a in acc if a[0] in ("write", "rmw")]
        if not writes_any:
            continue    # never written in an iteration: constant during the loop
        n += 1
        first = acc[0]
        # fresh iff an unconditional plain write precedes every read / rmw
        fresh = False
        for kind, uncond, f, st in acc:
            if kind == "write" and uncond:
                fresh = True
                break
            if kind in ("read", "rmw"):
                break
            # conditional plain write: keep looking, a later read may still see old state
        if fresh:
            ctx.ok("S1", "%s:%d" % (DSP, acc[0][3].lineno), "%s is freshly written (%s) before any use in each experiment" % (loc, src(acc[0][3])[:70]))
            continue
        if loc in BENIGN_SELF_STATE:
            ctx.ok("S1", "%s:%d" % (DSP, first[3].lineno), "%s carried but benign: %s" % (loc, BENIGN_SELF_STATE[loc]))
            continue
        if loc in const_derived:
            ctx.ok("S1", "%s:%d" % (DSP, first[3].lineno), "%s is written only with values computed from locations no experiment writes "
                   "(a memo of run-constant data)" % loc)
            continue
        kind, uncond, f, st = [a for a in acc if a[0] in ("read", "rmw")][0] if any(a[0] in ("read", "rmw") for a in acc) else first
        w = writes_any[0]
        ctx.fail("S1", st, f._qualname, src(st)[:110],
                 "%s outlives an experiment (it belongs to the DatasetProcessor / shared args created before the loop), is modified "
                 "while processing an experiment (%s) and is %s here before any unconditional fresh write in the same iteration: "
                 "experiment k+1 sees what experiment k left behind" % (loc, src(w[3])[:70], "read" if kind == "read" else "read-modified"))
    ctx.floor("S1", "driver-object locations written inside the per-experiment loop", n, 4)
    ctx.extra["driver_locations"] = {loc: [a[0] for a in acc][:6] for loc, acc in sorted(by_loc.items())
                                     if any(a[0] != "read" for a in acc)}


def driver_location_state(prog, loc):
    """('fresh'|'carried'|'constant'|'absent', node): how DatasetProcessor's `loc` (e.g. 'self.alignment_stat_counter') is treated inside one
    iteration of the per-experiment loop - fresh = an unconditional plain write precedes every read / read-modify-write (self-calls inlined)."""
    cls = prog.cls(DSP, "DatasetProcessor")
    lin = carried.Linearizer(prog, cls)
    acc = [(kind, uncond, f, st) for l, kind, uncond, f, st in lin.run("process_sample") if l == loc]
    if not acc:
        return "absent", None
    if not any(a[0] in ("write", "rmw") for a in acc) or loc in constant_derived_locations(prog):
        return "constant", acc[0][3]
    for kind, uncond, f, st in acc:
        if kind == "write" and uncond:
            return "fresh", st
        if kind in ("read", "rmw"):
            return "carried", st
    return "carried", acc[0][3]


def s3(prog, ctx):
    """A read grouper is built per experiment: the labels it hands out may come from its own experiment's label table only."""
    from ..engine import taint, flow
    RG = "src/read_groups.py"
    n = 0
    for m, c in prog.subclasses_of("AbstractReadGrouper"):
        init = prog.methods_of(c, inherited=False).get("__init__")
        if init is None:
            continue
        params = [a.arg for a in init.args.args]
        if "sample" not in params:
            continue
        n += 1
        bad = []

        def look(st, env, bad=bad):
            nodes = [st.iter] if isinstance(st, ast.For) else [st]
            for top in nodes:
                for x in ast.walk(top):
                    if isinstance(x, ast.Attribute) and isinstance(x.ctx, ast.Load) and "readable_name" in x.attr and dotted(x.value) != "self":
                        lab = taint.influence(x.value, env)
                        if "all-experiments" in lab:
                            bad.append((x, st))
        for pth in flow.paths(init):
            taint.run(pth, {"sample": {"own"}, "args": {"all-experiments"}}, on_stmt=look)
        if bad:
            x, st = bad[0]
            ctx.fail("S3", x, "%s.__init__" % c.name, src(st)[:100],
                     "the label table %s is read from an object taken from the experiments of the whole run (args...), not from this grouper's "
                     "own experiment: the group names of one experiment depend on which other experiments are processed in the same run, and "
                     "in which order" % src(x))
        else:
            ctx.ok("S3", "%s:%d" % (m.rel, init.lineno), "%s.__init__ reads label tables of its own experiment only" % c.name)
    ctx.floor("S3", "per-experiment grouper constructors", n, 1)


def reset_helpers(prog, cname, attr):
    """Functions / static methods whose whole body is `Cls.attr = <fresh>` (or .clear()) statements: calling one IS the reset."""
    out = {}
    for m, q, f in prog.all_functions():
        body = [st for st in f.body if not (isinstance(st, ast.Expr) and isinstance(st.value, ast.Constant))]
        if not body:
            continue
        def is_reset(st):
            if isinstance(st, ast.Assign) and any(isinstance(t, ast.Attribute) and isinstance(t.value, ast.Name) and t.value.id[:1].isupper() for t in st.targets):
                return True
            return isinstance(st, ast.Expr) and isinstance(st.value, ast.Call) and isinstance(st.value.func, ast.Attribute) and st.value.func.attr == "clear"
        if all(is_reset(st) for st in body) and any(
                (isinstance(st, ast.Assign) and any(dotted(t) == "%s.%s" % (cname, attr) for t in st.targets))
                or (isinstance(st, ast.Expr) and src(st.value.func) == "%s.%s.clear" % (cname, attr)) for st in body):
            out[f.name] = f
    return out


def reset_sites(prog, cname, attr):
    """Unconditional `Cls.attr = <fresh>` (or a call of a function that does nothing else) at top level of a per-experiment / per-task function."""
    out = []
    helpers = reset_helpers(prog, cname, attr)
    for q in ("DatasetProcessor.process_sample", "construct_models_in_parallel", "collect_reads_in_parallel",
              "DatasetProcessor.process_assigned_reads", "DatasetProcessor.collect_reads"):
        f = prog.try_func(DSP, q)
        if f is None:
            continue
        for st in f.body:
            if isinstance(st, ast.Assign) and any(dotted(t) == "%s.%s" % (cname, attr) for t in st.targets):
                out.append((q, st))
            if isinstance(st, ast.Expr) and isinstance(st.value, ast.Call) and src(st.value.func) == "%s.%s.clear" % (cname, attr):
                out.append((q, st))
            if isinstance(st, ast.Expr) and isinstance(st.value, ast.Call) and (call_name(st.value) or "").split(".")[-1] in helpers:
                out.append((q, st))
    return out


def s1_class_state(prog, ctx, tag="S1"):
    locs = carried.class_level_locations(prog)
    n = 0
    for (cname, attr), (m, c, st, why) in sorted(locs.items()):
        acc = carried.accesses_of_class_attr(prog, cname, attr)
        muts = [a for a in acc if a[4] in ("mutate", "write")]
        reads = [a for a in acc if a[4] == "read"]
        if not muts:
            ctx.ok(tag, "%s:%d" % (m.rel, st.lineno), "%s.%s (%s) is never modified after class creation" % (cname, attr, why), nontrivial=False)
            continue
        n += 1
        resets = reset_sites(prog, cname, attr)
        task_reset = [r for r in resets if r[0] in ("construct_models_in_parallel", "collect_reads_in_parallel")]
        if (cname, attr) in BENIGN_CLASS_STATE:
            ctx.ok(tag, "%s:%d" % (m.rel, st.lineno), "%s.%s carried but benign: %s" % (cname, attr, BENIGN_CLASS_STATE[(cname, attr)]))
            continue
        if task_reset or (resets and tag == "S1"):
            r = (task_reset or resets)[0]
            ctx.ok(tag, "%s:%d" % (DSP, r[1].lineno), "%s.%s is re-initialised unconditionally at the start of %s" % (cname, attr, r[0]))
            continue
        mm = muts[0]
        rr = (reads or muts)[0]
        ctx.fail(tag, mm[3], mm[1], "%s.%s" % (cname, attr),
                 "class-level %s.%s (%s) is modified here and consulted in %s, and nothing re-initialises it per experiment or per "
                 "chromosome task: it is process-wide, so with --threads 1 the second experiment inherits the first one's contents "
                 "(and with more threads the contents depend on which tasks a worker happened to run)"
                 % (cname, attr, why, rr[1]))
    ctx.floor(tag, "class-level mutable locations that are modified", n, 4)
    # module-level mutable globals mutated in functions
    for rel in sorted(prog.modules):
        m = prog.modules[rel]
        for name, v in sorted(m.assigns.items()):
            mutable = isinstance(v, (ast.Dict, ast.List, ast.Set)) or \
                (isinstance(v, ast.Call) and (call_name(v) or "").split(".")[-1] in carried.MUTABLE_CTORS)
            if not mutable:
                continue
            hits = []
            for q, f in m.functions.items():
                for node in walk_no_nested(f):
                    if isinstance(node, ast.Call) and isinstance(node.func, ast.Attribute) and node.func.attr in carried.MUTATING_METHODS \
                            and isinstance(node.func.value, ast.Name) and node.func.value.id == name:
                        # not shadowed by a local of the same name
                        if not any(isinstance(s, ast.Assign) and any(dotted(t) == name for t in s.targets) for s in walk_no_nested(f)) \
                                and name not in [a.arg for a in f.args.args]:
                            hits.append((q, node))
                    if isinstance(node, ast.Subscript) and isinstance(node.ctx, ast.Store) and isinstance(node.value, ast.Name) \
                            and node.value.id == name and name not in [a.arg for a in f.args.args] \
                            and not any(isinstance(s, ast.Assign) and any(dotted(t) == name for t in s.targets) for s in walk_no_nested(f)):
                        hits.append((q, node))
            if hits:
                ctx.fail(tag, hits[0][1], hits[0][0], "%s (module %s)" % (name, rel),
                         "module-level mutable global %s is modified at run time: process-wide state shared by all experiments" % name)
            else:
                ctx.ok(tag, rel, "module-level %s is never mutated" % name, nontrivial=False)
    # mutable default arguments that are mutated
    for m, q, f in prog.all_functions():
        defaults = f.args.defaults
        names = [a.arg for a in f.args.args][len(f.args.args) - len(defaults):]
        for pname, d in zip(names, defaults):
            if isinstance(d, (ast.Dict, ast.List, ast.Set)):
                for node in walk_no_nested(f):
                    if isinstance(node, ast.Call) and isinstance(node.func, ast.Attribute) and node.func.attr in carried.MUTATING_METHODS \
                            and dotted(node.func.value) == pname:
                        ctx.fail(tag, node, q, src(node), "mutable default argument %s is mutated: state shared by all calls" % pname)


    default_instances(prog, ctx, tag)
    memoised_functions(prog, ctx, tag)


def memoised_functions(prog, ctx, tag, files=None):
    """functools.lru_cache / cache keeps every result for the life of the process.  That is a sound memo for values, not for objects that
    carry state of their own: an object of a project class handed out from the cache is shared by every later caller - the next
    chromosome task, the next experiment - together with whatever the earlier ones did to it (counters, registries)."""
    classes = {c.name for _m, _q, c in prog.all_classes()}
    for m, q, f in prog.all_functions():
        if files is not None and m.rel not in files:
            continue
        decos = [dotted(d.func) if isinstance(d, ast.Call) else dotted(d) for d in f.decorator_list]
        if not any(d and d.split(".")[-1] in ("lru_cache", "cache") for d in decos):
            continue
        made = [c for r in walk_no_nested(f) if isinstance(r, ast.Return) and r.value is not None for c in ast.walk(r.value)
                if isinstance(c, ast.Call) and (call_name(c) or "").split(".")[-1] in classes]
        # ... or a local bound to such an object
        for r in [r for r in walk_no_nested(f) if isinstance(r, ast.Return) and isinstance(r.value, ast.Name)]:
            for st in walk_no_nested(f):
                if isinstance(st, ast.Assign) and any(src(t) == r.value.id for t in st.targets) and isinstance(st.value, ast.Call) \
                        and (call_name(st.value) or "").split(".")[-1] in classes:
                    made.append(st.value)
        if made:
            ctx.fail(tag, f, q, "@%s on %s" % (decos[0], q), "%s is memoised for the life of the process and returns an object of the project "
                     "class %s: every later caller with equal arguments (the next chromosome task, the next experiment) gets the SAME "
                     "object, including the state earlier callers left in it" % (q, call_name(made[0])))
        else:
            ctx.ok(tag, "%s:%d" % (m.rel, f.lineno), "%s is memoised and returns plain values" % q)


def _self_mutations(prog, clsdef):
    """(method, node, attr) for writes to self.<attr> outside __init__ in a class and its bases."""
    out = []
    for name, f in prog.methods_of(clsdef, inherited=True).items():
        if name == "__init__":
            continue
        for node in walk_no_nested(f):
            if isinstance(node, (ast.Assign, ast.AugAssign)):
                for t in (node.targets if isinstance(node, ast.Assign) else [node.target]):
                    base = t.value if isinstance(t, ast.Subscript) else t
                    d = dotted(base)
                    if d and d.startswith("self.") and d.count(".") == 1:
                        out.append((name, node, d[5:]))
            elif isinstance(node, ast.Call) and isinstance(node.func, ast.Attribute) and node.func.attr in carried.MUTATING_METHODS:
                d = dotted(node.func.value)
                if d and d.startswith("self.") and d.count(".") == 1:
                    out.append((name, node, d[5:]))
    return out


def default_instances(prog, ctx, tag):
    """Instances created in a default argument live for the whole process (one per `def`), like class-level state."""
    n = 0
    for m, q, f in prog.all_functions():
        args = f.args.args
        defaults = f.args.defaults
        names = [a.arg for a in args][len(args) - len(defaults):]
        pairs = list(zip(names, defaults)) + [(a.arg, d) for a, d in zip(f.args.kwonlyargs, f.args.kw_defaults) if d is not None]
        for pname, d in pairs:
            if not isinstance(d, ast.Call):
                continue
            cn = (call_name(d) or "").split(".")[-1]
            cands = prog.find_class(cn)
            if not cands:
                continue                      # not a program class (functools.partial, tuple(), ...): no methods of ours mutate it
            n += 1
            muts = [x for _m, c in cands for x in _self_mutations(prog, c)]
            if not muts:
                ctx.ok(tag, "%s:%d" % (m.rel, d.lineno), "default %s=%s of %s: one instance per process, but no method of %s modifies it"
                       % (pname, src(d), q, cn))
                continue
            # is the default ever used? (a call that binds neither positionally nor by keyword)
            owner = q.split(".")[0] if q.endswith(".__init__") else None
            callee = owner or q.split(".")[-1]
            pos = [a.arg for a in args].index(pname) - (1 if args and args[0].arg in ("self", "cls") else 0) if pname in [a.arg for a in args] else None
            users = []
            for m2, q2, f2 in prog.all_functions():
                for c in walk_no_nested(f2):
                    if isinstance(c, ast.Call) and (call_name(c) or "").split(".")[-1] == callee:
                        if any(isinstance(a, ast.Starred) for a in c.args) or any(k.arg is None for k in c.keywords):
                            continue
                        bound = (pos is not None and len(c.args) > pos) or any(k.arg == pname for k in c.keywords)
                        if not bound:
                            users.append((m2, q2, c))
            if not users:
                ctx.ok(tag, "%s:%d" % (m.rel, d.lineno), "default %s=%s of %s holds state (%s.%s) but every call site passes its own object"
                       % (pname, src(d), q, cn, muts[0][2]))
                continue
            u = users[0]
            ctx.fail(tag, u[2], u[1], "%s relies on default %s=%s" % (src(u[2])[:70], pname, src(d)),
                     "%s is evaluated once when %s is defined, so every call that omits `%s` (here in %s) shares ONE %s for the whole "
                     "process; %s.%s modifies self.%s - what one chromosome task / experiment leaves there is seen by the next one handled "
                     "by the same process (results depend on --threads and on task order)"
                     % (src(d), q, pname, u[1], cn, cn, muts[0][0], muts[0][2]))
    ctx.note("%s: %d default-argument instances of program classes examined" % (tag, n))


IDS = "src/input_data_storage.py"


def s2_experiment_parsing(prog, ctx):
    """Locals of the loops that enumerate experiments (input description -> SampleData): a name assigned inside the loop must be
    assigned in the current iteration on every path before it is read; only pure counters (x += const) may carry."""
    from ..engine import flow
    n = 0
    for m, q, f in prog.all_functions():
        if m.rel != IDS:
            continue
        outer = [l for l in walk_no_nested(f) if isinstance(l, ast.For) and not flow.enclosing_loops(l)]
        for lp in outer:
            assigned = {}
            for st in ast.walk(lp):
                if isinstance(st, ast.Assign):
                    for t in st.targets:
                        for x in ast.walk(t):
                            if isinstance(x, ast.Name) and isinstance(x.ctx, ast.Store):
                                assigned.setdefault(x.id, []).append(st)
                elif isinstance(st, (ast.For, ast.comprehension)):
                    for x in ast.walk(st.target):
                        if isinstance(x, ast.Name):
                            assigned.setdefault(x.id, []).append(st)
            counters = set()
            for st in ast.walk(lp):
                if isinstance(st, ast.AugAssign) and isinstance(st.target, ast.Name):
                    if isinstance(st.value, ast.Constant) and st.target.id not in assigned:
                        counters.add(st.target.id)
                    else:
                        assigned.setdefault(st.target.id, []).append(st)
            if not assigned:
                continue
            try:
                bodies = flow.block_paths(lp.body, "%s loop at line %d" % (q, lp.lineno))
            except AnalysisError:
                raise
            reported = set()
            line_loop = isinstance(lp.iter, ast.Name) and any(
                isinstance(st, ast.Assign) and any(isinstance(t, ast.Name) and t.id == lp.iter.id for t in st.targets)
                and isinstance(st.value, ast.Call) and (call_name(st.value) or "").split(".")[-1] == "open" for st in walk_no_nested(f)) \
                or isinstance(lp.iter, ast.Name) and any(isinstance(w, ast.With) and any(src(i.optional_vars) == lp.iter.id for i in w.items if i.optional_vars)
                                                          for w in walk_no_nested(f))
            carried_names = {}
            for p in bodies:
                have = {x.id for x in ast.walk(lp.target) if isinstance(x, ast.Name)}
                for ev in p.events:
                    if ev[0] == "cond":
                        reads, node = _loads(ev[1]), ev[1]
                        writes = set()
                    elif ev[0] == "stmt":
                        st = ev[1]
                        if isinstance(st, ast.Expr) and isinstance(st.value, ast.Call) and (call_name(st.value) or "") in ("exit", "sys.exit", "os._exit", "quit"):
                            break             # the process ends here: nothing after it on this path is executed
                        if isinstance(st, (ast.For, ast.While)):
                            reads, node = _loads(st.iter if isinstance(st, ast.For) else st.test), st
                            writes = {x.id for x in ast.walk(st.target) if isinstance(x, ast.Name)} if isinstance(st, ast.For) else set()
                        elif isinstance(st, ast.Assign):
                            reads, node = _loads(st.value) | {x for t in st.targets if not isinstance(t, ast.Name) for x in _loads(t)}, st
                            writes = {x.id for t in st.targets for x in ast.walk(t) if isinstance(x, ast.Name) and isinstance(x.ctx, ast.Store)}
                        elif isinstance(st, ast.AugAssign):
                            reads, node = _loads(st.value) | ({st.target.id} if isinstance(st.target, ast.Name) else _loads(st.target)), st
                            writes = {st.target.id} if isinstance(st.target, ast.Name) else set()
                        elif isinstance(st, ast.With):
                            reads, node, writes = set(), st, set()
                        else:
                            reads, node, writes = _loads(st), st, set()
                    else:
                        continue
                    for r in sorted(reads):
                        if r in assigned and r not in have and r not in counters and (r, node.lineno) not in reported:
                            reported.add((r, node.lineno))
                            n += 1
                            if line_loop:
                                carried_names.setdefault(r, node)
                                continue
                            ctx.fail("S2", node, q, "%s read at: %s" % (r, src(node)[:80]),
                                     "local `%s` is assigned inside the loop that enumerates experiments (%s) but on the path [%s] it is read "
                                     "before being assigned in the current iteration: the experiment gets the value left by an earlier "
                                     "experiment of the same run (or is undefined for the first one)"
                                     % (r, src(assigned[r][0])[:60], p.describe()[:120]))
                    have |= writes
            if line_loop and carried_names:
                # a loop over the LINES of a description file is a state machine: state is carried from line to line inside one
                # experiment by design; it must be reset as a whole where an experiment ends (one branch assigns every carried name)
                resets = [i for i in lp.body if isinstance(i, ast.If) and
                          set(carried_names) <= {t.id for st in i.body if isinstance(st, ast.Assign) for t in st.targets if isinstance(t, ast.Name)}]
                if resets:
                    ctx.ok("S2", "%s:%d" % (IDS, resets[0].lineno), "%s: line-oriented parser; the experiment-boundary branch `if %s` re-assigns every "
                           "carried local %s" % (q, src(resets[0].test)[:50], sorted(carried_names)))
                else:
                    r0 = sorted(carried_names)[0]
                    ctx.fail("S2", carried_names[r0], q, "carried locals %s" % sorted(carried_names),
                             "the line-oriented parser carries %s from line to line, and no branch of the loop re-assigns all of them at an "
                             "experiment boundary: part of one experiment's description leaks into the next" % sorted(carried_names))
            n += len(assigned)
            ctx.ok("S2", "%s:%d" % (IDS, lp.lineno), "%s: %d locals assigned in the experiment loop are all defined in the iteration before "
                   "use (carried by design: counters %s)" % (q, len(assigned), sorted(counters)))
    ctx.floor("S2", "locals assigned inside experiment-enumeration loops", n, 8)


def _loads(node):
    out = set()
    for x in ast.walk(node):
        if isinstance(x, ast.Name) and isinstance(x.ctx, ast.Load):
            out.add(x.id)
    # names bound by comprehensions inside the expression are local to it
    for c in ast.walk(node):
        if isinstance(c, ast.comprehension):
            for t in ast.walk(c.target):
                if isinstance(t, ast.Name):
                    out.discard(t.id)
    return out


def s4_distinct_names(prog, ctx):
    """The experiment names a description parser returns become output folders and file prefixes; they are distinct because every name was
    looked up in the list of names collected so far (and replaced on a hit) before it was appended.  That argument holds only if (a) the
    returned list is the list the look-ups were made in - created empty, grown by append only, never rebuilt - and (b) a name is not
    re-assigned between its look-up and its append."""
    from ..engine import flow
    n = 0
    for q in ("InputDataStorage.get_samples_from_file", "InputDataStorage.get_samples_from_yaml"):
        f = prog.func(IDS, q)
        rets = [r for r in walk_no_nested(f) if isinstance(r, ast.Return) and isinstance(r.value, ast.Tuple)]
        if not rets:
            ctx.undecided("S4", f, q, "the parser does not return a tuple")
            continue
        cands = set()
        for c in walk_no_nested(f):
            if isinstance(c, ast.Compare) and len(c.ops) == 1 and isinstance(c.ops[0], (ast.In, ast.NotIn)) and isinstance(c.left, ast.Name) \
                    and isinstance(c.comparators[0], ast.Name) and any(isinstance(e, ast.Name) and e.id == c.comparators[0].id
                                                                       for r in rets for e in r.value.elts):
                cands.add((c.left.id, c.comparators[0].id))
        lists = {r for _x, r in cands}
        if len(lists) != 1:
            ctx.undecided("S4", f, q, "no single returned list in which names are looked up before they are added (found %s)" % sorted(lists))
            continue
        R = lists.pop()
        names = {x for x, _r in cands}
        # (a) the list
        for st in walk_no_nested(f):
            tg = []
            if isinstance(st, ast.Assign):
                tg = [t for t in st.targets for t in ast.walk(t) if isinstance(t, ast.Name) and isinstance(t.ctx, ast.Store)]
                val = st.value
            elif isinstance(st, (ast.AugAssign, ast.AnnAssign)):
                tg, val = [st.target] if isinstance(st.target, ast.Name) else [], st.value
            elif isinstance(st, ast.For):
                tg, val = [t for t in ast.walk(st.target) if isinstance(t, ast.Name)], None
            for t in tg:
                if t.id != R:
                    continue
                n += 1
                if isinstance(st, ast.Assign) and isinstance(val, ast.List) and not val.elts and not flow.enclosing_loops(st):
                    ctx.ok("S4", "%s:%d" % (IDS, st.lineno), "%s: %s starts empty" % (q, R))
                else:
                    ctx.fail("S4", st, q, "%s rebuilt: %s" % (R, src(st)[:70]),
                             "the list of experiment names is rebuilt after names were looked up in it: names that passed the duplicate check "
                             "separately can coincide afterwards, and two experiments of one run then share an output folder")
            if isinstance(st, ast.Expr) and isinstance(st.value, ast.Call) and isinstance(st.value.func, ast.Attribute) \
                    and isinstance(st.value.func.value, ast.Name) and st.value.func.value.id == R:
                n += 1
                meth, c = st.value.func.attr, st.value
                if meth == "append" and len(c.args) == 1 and isinstance(c.args[0], ast.Name) and c.args[0].id in names:
                    ctx.ok("S4", "%s:%d" % (IDS, st.lineno), "%s: %s grows by append(%s), a looked-up name" % (q, R, c.args[0].id))
                elif meth in ("append", "extend", "insert", "__setitem__", "sort", "reverse", "remove", "pop", "clear"):
                    ctx.fail("S4", st, q, "%s.%s(%s)" % (R, meth, ", ".join(src(a) for a in c.args)[:50]),
                             "the list of experiment names is changed by something else than append(<looked-up name>): distinctness of the "
                             "returned names no longer follows from the duplicate check")
            if isinstance(st, ast.Assign) and any(isinstance(t, ast.Subscript) and isinstance(t.value, ast.Name) and t.value.id == R for t in st.targets):
                n += 1
                ctx.fail("S4", st, q, "%s[...] = ..." % R, "an element of the list of experiment names is overwritten after the duplicate check")
        for r in rets:
            if not any(isinstance(e, ast.Name) and e.id == R for e in r.value.elts):
                ctx.fail("S4", r, q, "return without %s" % R, "the returned names are not the list the duplicate look-ups were made in")
        # (b) per iteration: a name assigned on a path is looked up in R after its last plain assignment
        seen_fail = set()
        for lp in [l for l in walk_no_nested(f) if isinstance(l, (ast.For, ast.While)) and not flow.enclosing_loops(l)]:
            if not any(isinstance(x, ast.Name) and x.id in names and isinstance(x.ctx, ast.Store) for x in ast.walk(lp)):
                continue
            for p in flow.block_paths(lp.body, "%s loop at line %d" % (q, lp.lineno)):
                state = {}           # name -> "assigned" | "looked-up"
                hit = set()
                absent = set()       # expressions looked up in R and found absent on this path
                for ev in p.events:
                    if ev[0] == "cond":
                        for c in ast.walk(ev[1]):
                            if isinstance(c, ast.Compare) and len(c.ops) == 1 and isinstance(c.ops[0], (ast.In, ast.NotIn)) \
                                    and isinstance(c.left, ast.Name) and c.left.id in names and src(c.comparators[0]) == R:
                                state[c.left.id] = "looked-up"
                                present = isinstance(c.ops[0], ast.In) == ev[2]
                                if present and ev[1] is c:
                                    hit.add(c.left.id)
                            if isinstance(c, ast.Compare) and len(c.ops) == 1 and isinstance(c.ops[0], (ast.In, ast.NotIn)) \
                                    and src(c.comparators[0]) == R and ev[1] is c and (isinstance(c.ops[0], ast.In) != ev[2]):
                                absent.add(src(c.left))
                        continue
                    if ev[0] != "stmt":
                        continue
                    st = ev[1]
                    if isinstance(st, ast.Expr) and isinstance(st.value, ast.Call) and (call_name(st.value) or "") in ("exit", "sys.exit", "os._exit", "quit"):
                        state = {}
                        break
                    if isinstance(st, ast.Assign):
                        for t in st.targets:
                            if isinstance(t, ast.Name) and t.id in names:
                                # the replacement made because the look-up hit is part of the duplicate handling - provided the
                                # replacement was itself looked up (and found absent) on this path
                                if t.id in hit:
                                    hit.discard(t.id)
                                    if src(st.value) in absent:
                                        state[t.id] = "looked-up"
                                    else:
                                        state[t.id] = "looked-up"          # reported once here; no follow-up reports for the same cause
                                        if ("repl", st.lineno) not in seen_fail:
                                            seen_fail.add(("repl", st.lineno))
                                            n += 1
                                            ctx.fail("S4", st, q, "replacement %s not looked up" % src(st.value)[:40],
                                                     "`%s` replaces a name that is already taken, but on the path [%s] the replacement was not "
                                                     "looked up in %s itself: it can coincide with the name of an earlier experiment, and the two "
                                                     "then share an output folder and overwrite each other's files"
                                                     % (src(st.value)[:40], p.describe()[:120], R))
                                else:
                                    state[t.id] = "assigned"
                    elif isinstance(st, ast.AugAssign) and isinstance(st.target, ast.Name) and st.target.id in names:
                        state[st.target.id] = "assigned"
                    if isinstance(st, ast.Expr) and isinstance(st.value, ast.Call) and src(st.value.func) == R + ".append" and st.value.args \
                            and isinstance(st.value.args[0], ast.Name) and state.get(st.value.args[0].id) == "assigned":
                        n += 1
                        ctx.fail("S4", st, q, "append of unchecked %s" % st.value.args[0].id,
                                 "on the path [%s] `%s` is assigned and appended to %s without having been looked up in it" %
                                 (p.describe()[:100], st.value.args[0].id, R))
                n += 1
                stale = sorted(k for k, v in state.items() if v == "assigned")
                if stale:
                    ctx.fail("S4", lp, q, "%s assigned after its look-up in %s" % (stale[0], R),
                             "on the path [%s] of the experiment loop `%s` is (re-)assigned after - or without - being looked up in %s; the name "
                             "that is appended later never passed the duplicate check in this form: two experiments can get the same folder "
                             "and overwrite each other" % (p.describe()[:120], stale[0], R))
                else:
                    ctx.ok("S4", "%s:%d" % (IDS, lp.lineno), "%s: path [%s] leaves every experiment name looked up in %s" % (q, p.describe()[:60], R),
                           nontrivial=bool(state))
    ctx.floor("S4", "name-list definitions / appends / loop paths of the two description parsers", n, 8)


def run(prog, ctx):
    ctx.rule("S4", "the experiment names returned by get_samples_from_file / get_samples_from_yaml are pairwise distinct by the parsers' own "
                   "argument: the returned list starts empty, grows only by append(name), is never rebuilt, and on every path of the "
                   "experiment loop a name is looked up in that list after its last assignment; a replacement assigned under a hit must "
                   "itself have been looked up and found absent on that path")
    s4_distinct_names(prog, ctx)
    ctx.rule("S2", "in every outermost loop of src/input_data_storage.py (experiment enumeration) a local that is assigned inside the "
                   "loop is assigned on every path of the current iteration before it is read; only `x += const` counters carry")
    s2_experiment_parsing(prog, ctx)
    ctx.rule("S1", "loop-carried dependence over `for sample in samples: self.process_sample(sample)`: driver-object locations "
                   "(self.*, self.args.*) are linearised through inlined self-calls - a location modified in an iteration must be "
                   "plainly and unconditionally written before any read/read-modify in that iteration; class-level and module-level "
                   "mutable state that is modified must be re-initialised per experiment/task or be listed as benign with a reason")
    s1_driver(prog, ctx)
    s1_class_state(prog, ctx)
    ctx.rule("S3", "path-wise influence propagation in the constructors of the per-experiment read groupers: a label table "
                   "(<x>.readable_names*) is read only from objects that depend on the constructor's own `sample`, never from an "
                   "object reached through the run-wide args (other experiments)")
    s3(prog, ctx)
    ctx.extra["benign_class_state"] = {"%s.%s" % k: v for k, v in BENIGN_CLASS_STATE.items()}
    ctx.assume("equality with stand-alone runs and the combined_* tables (pandas) are not decided")
    ctx.assume("conditions on run constants (args.* never written inside the loop) take the same branch in every iteration")
