"""C10 - experiments processed in one invocation are independent (structural part).

S1 no state that outlives an experiment is read (or read-modified) in an iteration before it was freshly written in it:
   driver-object attributes (DatasetProcessor self.*, shared args namespace), class-level and module-level mutable state.
"""
import ast

from ..engine.program import AnalysisError, dotted, src, walk_no_nested, call_name
from ..engine import carried

DSP = "src/dataset_processor.py"

# carried locations whose value cannot influence any output, with the reason (triage by reading)
BENIGN_CLASS_STATE = {
    ("ReadAssignment", "assignment_id_generator"):
        "opaque identity: assignment ids are only compared with ids stored in the same experiment's save files (together with chr_id)",
    ("FeatureInfo", "feature_id_counter"):
        "opaque identity: used as dict key only; output order follows OrderedDict insertion, never the id value",
    ("MultimapResolver", "duplicate_counter"):
        "selects logger.info vs logger.debug for duplicate warnings only",
}
BENIGN_SELF_STATE = {}


def s1_driver(prog, ctx):
    cls = prog.cls(DSP, "DatasetProcessor")
    # the loop
    pas = prog.func(DSP, "DatasetProcessor.process_all_samples")
    loops = [l for l in walk_no_nested(pas) if isinstance(l, ast.For) and "samples" in src(l.iter)]
    if len(loops) != 1 or "self.process_sample(" not in src(loops[0]):
        raise AnalysisError("process_all_samples: per-experiment loop calling self.process_sample not found")
    lin = carried.Linearizer(prog, cls)
    seq = lin.run("process_sample")
    by_loc = {}
    for loc, kind, uncond, f, st in seq:
        by_loc.setdefault(loc, []).append((kind, uncond, f, st))
    n = 0
    for loc in sorted(by_loc):
        acc = by_loc[loc]
        writes_any = [a for a in acc if a[0] in ("write", "rmw")]
        if not writes_any:
            continue    # never written in an iteration: constant during the loop
        n += 1
        first = acc[0]
        # fresh iff an unconditional plain write precedes every read / rmw
        fresh = False
        for kind, uncond, f, st in acc:
            if kind == "write" and uncond:
                fresh = True
                break
            if kind in ("read", "rmw"):
                break
            # conditional plain write: keep looking, a later read may still see old state
        if fresh:
            ctx.ok("S1", "%s:%d" % (DSP, acc[0][3].lineno), "%s is freshly written (%s) before any use in each experiment" % (loc, src(acc[0][3])[:70]))
            continue
        if loc in BENIGN_SELF_STATE:
            ctx.ok("S1", "%s:%d" % (DSP, first[3].lineno), "%s carried but benign: %s" % (loc, BENIGN_SELF_STATE[loc]))
            continue
        kind, uncond, f, st = [a for a in acc if a[0] in ("read", "rmw")][0] if any(a[0] in ("read", "rmw") for a in acc) else first
        w = writes_any[0]
        ctx.fail("S1", st, f._qualname, src(st)[:110],
                 "%s outlives an experiment (it belongs to the DatasetProcessor / shared args created before the loop), is modified "
                 "while processing an experiment (%s) and is %s here before any unconditional fresh write in the same iteration: "
                 "experiment k+1 sees what experiment k left behind" % (loc, src(w[3])[:70], "read" if kind == "read" else "read-modified"))
    ctx.floor("S1", "driver-object locations written inside the per-experiment loop", n, 4)
    ctx.extra["driver_locations"] = {loc: [a[0] for a in acc][:6] for loc, acc in sorted(by_loc.items())
                                     if any(a[0] != "read" for a in acc)}


def reset_sites(prog, cname, attr):
    """Unconditional `Cls.attr = <fresh>` at top level of a per-experiment / per-task function."""
    out = []
    for q in ("DatasetProcessor.process_sample", "construct_models_in_parallel", "collect_reads_in_parallel",
              "DatasetProcessor.process_assigned_reads", "DatasetProcessor.collect_reads"):
        f = prog.try_func(DSP, q)
        if f is None:
            continue
        for st in f.body:
            if isinstance(st, ast.Assign) and any(dotted(t) == "%s.%s" % (cname, attr) for t in st.targets):
                out.append((q, st))
            if isinstance(st, ast.Expr) and isinstance(st.value, ast.Call) and src(st.value.func) == "%s.%s.clear" % (cname, attr):
                out.append((q, st))
    return out


def s1_class_state(prog, ctx, tag="S1"):
    locs = carried.class_level_locations(prog)
    n = 0
    for (cname, attr), (m, c, st, why) in sorted(locs.items()):
        acc = carried.accesses_of_class_attr(prog, cname, attr)
        muts = [a for a in acc if a[4] in ("mutate", "write")]
        reads = [a for a in acc if a[4] == "read"]
        if not muts:
            ctx.ok(tag, "%s:%d" % (m.rel, st.lineno), "%s.%s (%s) is never modified after class creation" % (cname, attr, why), nontrivial=False)
            continue
        n += 1
        resets = reset_sites(prog, cname, attr)
        task_reset = [r for r in resets if r[0] in ("construct_models_in_parallel", "collect_reads_in_parallel")]
        if (cname, attr) in BENIGN_CLASS_STATE:
            ctx.ok(tag, "%s:%d" % (m.rel, st.lineno), "%s.%s carried but benign: %s" % (cname, attr, BENIGN_CLASS_STATE[(cname, attr)]))
            continue
        if task_reset or (resets and tag == "S1"):
            r = (task_reset or resets)[0]
            ctx.ok(tag, "%s:%d" % (DSP, r[1].lineno), "%s.%s is re-initialised unconditionally at the start of %s" % (cname, attr, r[0]))
            continue
        mm = muts[0]
        rr = (reads or muts)[0]
        ctx.fail(tag, mm[3], mm[1], "%s.%s" % (cname, attr),
                 "class-level %s.%s (%s) is modified here and consulted in %s, and nothing re-initialises it per experiment or per "
                 "chromosome task: it is process-wide, so with --threads 1 the second experiment inherits the first one's contents "
                 "(and with more threads the contents depend on which tasks a worker happened to run)"
                 % (cname, attr, why, rr[1]))
    ctx.floor(tag, "class-level mutable locations that are modified", n, 4)
    # module-level mutable globals mutated in functions
    for rel in sorted(prog.modules):
        m = prog.modules[rel]
        for name, v in sorted(m.assigns.items()):
            mutable = isinstance(v, (ast.Dict, ast.List, ast.Set)) or \
                (isinstance(v, ast.Call) and (call_name(v) or "").split(".")[-1] in carried.MUTABLE_CTORS)
            if not mutable:
                continue
            hits = []
            for q, f in m.functions.items():
                for node in walk_no_nested(f):
                    if isinstance(node, ast.Call) and isinstance(node.func, ast.Attribute) and node.func.attr in carried.MUTATING_METHODS \
                            and isinstance(node.func.value, ast.Name) and node.func.value.id == name:
                        # not shadowed by a local of the same name
                        if not any(isinstance(s, ast.Assign) and any(dotted(t) == name for t in s.targets) for s in walk_no_nested(f)) \
                                and name not in [a.arg for a in f.args.args]:
                            hits.append((q, node))
                    if isinstance(node, ast.Subscript) and isinstance(node.ctx, ast.Store) and isinstance(node.value, ast.Name) \
                            and node.value.id == name and name not in [a.arg for a in f.args.args] \
                            and not any(isinstance(s, ast.Assign) and any(dotted(t) == name for t in s.targets) for s in walk_no_nested(f)):
                        hits.append((q, node))
            if hits:
                ctx.fail(tag, hits[0][1], hits[0][0], "%s (module %s)" % (name, rel),
                         "module-level mutable global %s is modified at run time: process-wide state shared by all experiments" % name)
            else:
                ctx.ok(tag, rel, "module-level %s is never mutated" % name, nontrivial=False)
    # mutable default arguments that are mutated
    for m, q, f in prog.all_functions():
        defaults = f.args.defaults
        names = [a.arg for a in f.args.args][len(f.args.args) - len(defaults):]
        for pname, d in zip(names, defaults):
            if isinstance(d, (ast.Dict, ast.List, ast.Set)):
                for node in walk_no_nested(f):
                    if isinstance(node, ast.Call) and isinstance(node.func, ast.Attribute) and node.func.attr in carried.MUTATING_METHODS \
                            and dotted(node.func.value) == pname:
                        ctx.fail(tag, node, q, src(node), "mutable default argument %s is mutated: state shared by all calls" % pname)


def run(prog, ctx):
    ctx.rule("S1", "loop-carried dependence over `for sample in samples: self.process_sample(sample)`: driver-object locations "
                   "(self.*, self.args.*) are linearised through inlined self-calls - a location modified in an iteration must be "
                   "plainly and unconditionally written before any read/read-modify in that iteration; class-level and module-level "
                   "mutable state that is modified must be re-initialised per experiment/task or be listed as benign with a reason")
    s1_driver(prog, ctx)
    s1_class_state(prog, ctx)
    ctx.extra["benign_class_state"] = {"%s.%s" % k: v for k, v in BENIGN_CLASS_STATE.items()}
    ctx.assume("equality with stand-alone runs and the combined_* tables (pandas) are not decided")
    ctx.assume("conditions on run constants (args.* never written inside the loop) take the same branch in every iteration")
