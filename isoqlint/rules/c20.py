"""C20 - concurrent runs under one account do not interfere (structural part).

Shared paths = the per-user JSON caches set up by isoquant.set_configs_directory.
A1 every write of a shared path is an atomic publish (temp sibling + os.replace), never an in-place open(...,'w')
A2 every json.load of a shared path tolerates a missing / undecodable file
A3 no check-then-act creation of a shared path (exists() guarding an in-place create)
"""
import ast
import re

from ..engine.program import AnalysisError, dotted, src, walk_no_nested, call_name, enclosing_function, enclosing_stmt
from ..engine import flow

TOLERATED = {"ValueError", "json.JSONDecodeError", "JSONDecodeError", "json.decoder.JSONDecodeError", "Exception", "BaseException"}
MISSING = {"OSError", "IOError", "FileNotFoundError", "EnvironmentError", "Exception", "BaseException"}


def shared_attrs(prog):
    f = prog.func("isoquant.py", "set_configs_directory")
    cfg = None
    for st in walk_no_nested(f):
        if isinstance(st, ast.Assign) and isinstance(st.targets[0], ast.Name) and "HOME" in src(st.value):
            cfg = st.targets[0].id
    if cfg is None:
        raise AnalysisError("set_configs_directory: per-user config directory (from $HOME) not found")
    # names derived from it (config_dir = os.path.join(home, ...))
    cfgs = {cfg}
    for _ in range(3):
        for st in walk_no_nested(f):
            if isinstance(st, ast.Assign) and isinstance(st.targets[0], ast.Name) and \
                    any(isinstance(x, ast.Name) and x.id in cfgs for x in ast.walk(st.value)):
                cfgs.add(st.targets[0].id)

    def from_cfg(e):
        return any(isinstance(x, ast.Name) and x.id in cfgs for x in ast.walk(e))
    out = {}
    for st in walk_no_nested(f):
        if isinstance(st, ast.Assign) and isinstance(st.targets[0], ast.Attribute) and from_cfg(st.value):
            out[st.targets[0].attr] = st
    # the same written as a loop:  for kind in ('db', ...): setattr(args, kind + '_config_path', os.path.join(cfg, ...))
    massigns = prog.module("isoquant.py").assigns
    for lp in [x for x in walk_no_nested(f) if isinstance(x, ast.For) and isinstance(x.target, ast.Name)]:
        it = lp.iter
        if isinstance(it, ast.Name) and isinstance(massigns.get(it.id), (ast.Tuple, ast.List)):
            it = massigns[it.id]                  # a module-level tuple of kinds
        if not isinstance(it, (ast.Tuple, ast.List)):
            continue
        for c in ast.walk(lp):
            if isinstance(c, ast.Call) and call_name(c) == "setattr" and len(c.args) == 3 and from_cfg(c.args[2]):
                for e in it.elts:
                    if isinstance(e, ast.Constant) and isinstance(e.value, str):
                        from ..engine import staticeval
                        try:
                            name = staticeval.evaluate(c.args[1], {lp.target.id: e.value})
                        except Exception:
                            continue
                        if isinstance(name, str):
                            out[name] = enclosing_stmt(c)
    return out


def is_write_mode(call):
    mode = None
    if len(call.args) > 1:
        mode = call.args[1]
    for k in call.keywords:
        if k.arg == "mode":
            mode = k.value
    if mode is None:
        return False
    if isinstance(mode, ast.Constant) and isinstance(mode.value, str):
        return any(ch in mode.value for ch in "wax+")
    return True   # unknown mode: assume it may write


class Analyser:
    def __init__(self, prog, ctx, shared):
        self.prog = prog
        self.ctx = ctx
        self.shared = shared
        self.summaries = {}

    # ---- which expressions denote a shared path inside function f ----
    def shared_locals(self, f):
        loc = {}
        changed = True
        while changed:
            changed = False
            for n in walk_no_nested(f):
                if isinstance(n, ast.For) and isinstance(n.target, ast.Name) and isinstance(n.iter, (ast.Tuple, ast.List)):
                    if n.iter.elts and all(self.is_shared(e, loc) for e in n.iter.elts) and n.target.id not in loc:
                        loc[n.target.id] = "loop over shared paths"
                        changed = True
                elif isinstance(n, ast.Assign) and isinstance(n.targets[0], ast.Name) and self.is_shared(n.value, loc) \
                        and n.targets[0].id not in loc:
                    loc[n.targets[0].id] = "alias"
                    changed = True
        return loc

    def is_shared(self, e, loc):
        if isinstance(e, ast.Attribute) and e.attr in self.shared:
            return True
        if isinstance(e, ast.Name) and e.id in loc:
            return True
        return False

    # ---- per-function effect summaries on parameters -------------------
    def effects_on(self, f, is_target):
        """Effects of function body on paths selected by predicate is_target(expr)."""
        eff = []
        handle_of = {}   # handle name -> open call (for json.load / json.dump attribution)
        for n in walk_no_nested(f):
            if isinstance(n, ast.With):
                for item in n.items:
                    c = item.context_expr
                    if isinstance(c, ast.Call) and call_name(c) in ("open", "gzip.open") and c.args and is_target(c.args[0]) \
                            and isinstance(item.optional_vars, ast.Name):
                        handle_of[item.optional_vars.id] = c
            elif isinstance(n, ast.Assign) and isinstance(n.value, ast.Call) and call_name(n.value) in ("open", "gzip.open") \
                    and n.value.args and is_target(n.value.args[0]) and isinstance(n.targets[0], ast.Name):
                handle_of[n.targets[0].id] = n.value
        for n in walk_no_nested(f):
            if not isinstance(n, ast.Call):
                continue
            cn = call_name(n)
            if cn in ("open", "gzip.open") and n.args and is_target(n.args[0]):
                if is_write_mode(n):
                    eff.append(("write-inplace", n))
            elif cn in ("os.replace", "os.rename", "shutil.move") and len(n.args) == 2 and is_target(n.args[1]):
                eff.append(("atomic-publish", n))
            elif cn == "json.load" and n.args:
                h = n.args[0]
                opened = None
                if isinstance(h, ast.Name) and h.id in handle_of:
                    opened = handle_of[h.id]
                elif isinstance(h, ast.Call) and call_name(h) == "open" and h.args and is_target(h.args[0]):
                    opened = h
                if opened is not None:
                    eff.append(("read-tolerant" if self.tolerant(n, opened, f) else "read-raw", n))
            elif cn is not None:
                # calls to closure functions passing a target path
                callee = self.resolve(cn)
                if callee is not None:
                    params = [a.arg for a in callee.args.args]
                    for i, a in enumerate(n.args):
                        if is_target(a) and i < len(params):
                            for kind, site in self.param_effects(callee, params[i]):
                                eff.append((kind, n))
                    for k in n.keywords:
                        if k.arg in params and is_target(k.value):
                            for kind, site in self.param_effects(callee, k.arg):
                                eff.append((kind, n))
        return eff

    def tolerant(self, load_call, open_call, f):
        """json.load and its open() both inside try blocks catching decode errors and missing files."""
        def handlers_over(node):
            names = set()
            cur = node
            while cur is not None and cur is not f:
                parent = getattr(cur, "_parent", None)
                if isinstance(parent, ast.Try) and any(cur is x for x in parent.body):
                    for h in parent.handlers:
                        if h.type is None:
                            names.add("BaseException")
                        elif isinstance(h.type, ast.Tuple):
                            names |= {dotted(e) for e in h.type.elts}
                        else:
                            names.add(dotted(h.type))
                cur = parent
            return names
        hl = handlers_over(load_call)
        ho = handlers_over(open_call)
        return bool(hl & TOLERATED) and bool(ho & MISSING)

    def resolve(self, name):
        last = name.split(".")[-1]
        cands = [f for _m, q, f in self.prog.all_functions() if q == last]
        return cands[0] if len(cands) == 1 else None

    def param_effects(self, callee, param):
        key = (id(callee), param)
        if key in self.summaries:
            return self.summaries[key]
        self.summaries[key] = []   # recursion guard
        res = self.effects_on(callee, lambda e: isinstance(e, ast.Name) and e.id == param)
        self.summaries[key] = res
        return res


def a5(prog, ctx):
    """Only an artefact this run has just derived from the key's input is registered in a per-user cache."""
    from ..engine import dataflow
    n = 0
    prog_funcs = {q.split(".")[-1] for _m, q, _f in prog.all_functions()}
    for m, q, f in prog.all_functions():
        for c in walk_no_nested(f):
            if not (isinstance(c, ast.Call) and (call_name(c) or "").split(".")[-1].startswith("store_") and c.args):
                continue
            sname = call_name(c).split(".")[-1]
            if sname not in prog_funcs or q.split(".")[-1] == sname:
                continue
            n += 1
            v = c.args[0]
            st = enclosing_stmt(c)
            if not isinstance(v, ast.Name):
                ctx.fail("A5", c, q, src(c), "the registered artefact is not a local whose origin can be followed")
                continue
            defs = dataflow.local_defs(f)
            rd = dataflow.reaching_defs(f, v.id, st, defs)
            bad = []
            for kind, val, dst in rd:
                cn = (call_name(val) or "") if isinstance(val, ast.Call) else ""
                last = cn.split(".")[-1]
                if kind == "assign" and last in prog_funcs and not last.startswith("find_") and not last.startswith("store_"):
                    continue                                   # produced by this run (index_reference, align_fasta, ...)
                if kind == "assign" and isinstance(val, ast.Call) and cn in ("os.path.join", "os.path.abspath") and "args.output" in src(val):
                    blk = st._parent
                    conv = [x for x in getattr(blk, "body", []) if isinstance(x, ast.Expr) and isinstance(x.value, ast.Call)
                            and (call_name(x.value) or "").split(".")[-1] in prog_funcs
                            and not (call_name(x.value) or "").split(".")[-1].startswith(("store_", "find_"))
                            and any(src(a) == v.id for a in x.value.args) and dst.lineno <= x.lineno < st.lineno]
                    if conv and dst._parent is blk:
                        continue                               # fresh path in the output folder, filled by a converter call right here
                bad.append((kind, val, dst))
            if bad:
                bad.sort(key=lambda b: (isinstance(b[1], ast.Constant), b[2].lineno))
                kind, val, dst = bad[0]
                ctx.fail("A5", c, q, "%s with %s = %s" % (src(c), v.id, src(val)[:60]),
                         "%s registers `%s` in the per-user cache under this run's input key, but on some path `%s` is %s (line %d), which this "
                         "run did not derive from that input: another run with the same input would be handed a file that does not "
                         "correspond to it" % (sname, v.id, v.id, src(val)[:60], dst.lineno))
            else:
                ctx.ok("A5", "%s:%d" % (m.rel, c.lineno), "%s: %s registers only what this run produced (%s)"
                       % (q, sname, "; ".join(src(d[1])[:40] for d in rd)))
    ctx.floor("A5", "cache registration call sites", n, 3)
    # the annotation-db cache registers inline in convert_db: the registration must follow the conversion in the same block
    cd = prog.func_inlined("src/gtf2db.py", "convert_db", exclude=("load_json_cache", "dump_json_cache", "convert_fn"))
    loaded = [st_.targets[0].id for st_ in cd.body if isinstance(st_, ast.Assign) and isinstance(st_.targets[0], ast.Name)
              and isinstance(st_.value, ast.Call) and call_name(st_.value) == "load_json_cache"]
    regs = [st_ for st_ in cd.body if isinstance(st_, ast.Assign) and isinstance(st_.targets[0], ast.Subscript)
            and src(st_.targets[0].value) in loaded]
    convs = [i for i, st_ in enumerate(cd.body) if any(isinstance(c, ast.Call) and call_name(c) == "convert_fn" for c in ast.walk(st_))]
    ridx = [i for i, st_ in enumerate(cd.body) if st_ in regs]
    if len(regs) != 1 or not convs or convs[-1] > ridx[0]:
        ctx.fail("A5", cd, "convert_db", "converted_gtfs[...] = ...", "the annotation cache entry is not registered right after this run's own conversion")
    else:
        ctx.ok("A5", "src/gtf2db.py:%d" % regs[0].lineno, "convert_db registers the entry after its own convert_fn call; earlier returns hand out validated entries")


def a6(prog, ctx):
    """A cache entry is valid only for files that are exactly as they were when it was written: recorded modification times are compared
    for (in)equality, never with an order relation (a file another run is rewriting right now is 'newer')."""
    n = 0
    for m, q, f in prog.all_functions():
        if m.rel not in ("src/gtf2db.py", "src/read_mapper.py"):
            continue
        for c in walk_no_nested(f):
            if isinstance(c, ast.Compare) and any(isinstance(x, ast.Call) and (call_name(x) or "").endswith("getmtime") for x in ast.walk(c)):
                n += 1
                bad = [o for o in c.ops if not isinstance(o, (ast.Eq, ast.NotEq))]
                if bad:
                    ctx.fail("A6", c, q, src(c)[:90], "a recorded modification time is compared with %s instead of == / !=: a file that another run "
                             "is converting into right now has a newer mtime and is accepted as the finished artefact of the cached conversion"
                             % type(bad[0]).__name__)
                else:
                    ctx.ok("A6", "%s:%d" % (m.rel, c.lineno), "%s: mtime compared for (in)equality" % q)
    # a modification time handed to anything but == / != : approximate comparison (math.isclose, abs(a - b) < eps), ordering helpers
    for m, q, f in prog.all_functions():
        if m.rel not in ("src/gtf2db.py", "src/read_mapper.py"):
            continue
        for c in walk_no_nested(f):
            if not (isinstance(c, ast.Call) and (call_name(c) or "").endswith("getmtime")):
                continue
            par = getattr(c, "_parent", None)
            if isinstance(par, ast.Call) and c in par.args and (call_name(par) or "").split(".")[-1] in ("isclose", "abs", "round", "int", "min", "max"):
                n += 1
                ctx.fail("A6", par, q, src(par)[:90], "a modification time goes through %s(...) before it decides whether a cached artefact is "
                         "still valid: two different states of a file whose times differ by less than the tolerance (a relative tolerance "
                         "of 1e-9 is about two seconds for epoch times) are taken for the same file" % call_name(par))
            elif isinstance(par, ast.BinOp) and isinstance(par.op, ast.Sub):
                n += 1
                ctx.fail("A6", par, q, src(par)[:90], "the difference of two modification times is computed: validity of a cached artefact is "
                         "decided by closeness instead of equality")
    # a wrapper that compares exactly counts for each of its call sites
    wrappers = set()
    for m, q, f in prog.all_functions():
        if m.rel in ("src/gtf2db.py", "src/read_mapper.py") and "." not in q and len(f.body) <= 5 and any(
                isinstance(c, ast.Compare) and all(isinstance(o, (ast.Eq, ast.NotEq)) for o in c.ops)
                and any(isinstance(x, ast.Call) and (call_name(x) or "").endswith("getmtime") for x in ast.walk(c)) for c in walk_no_nested(f)):
            wrappers.add(f.name)
    if wrappers:
        n += sum(1 for m, q, f in prog.all_functions() if m.rel in ("src/gtf2db.py", "src/read_mapper.py")
                 for c in walk_no_nested(f) if isinstance(c, ast.Call) and (call_name(c) or "").split(".")[-1] in wrappers)
    ctx.floor("A6", "comparisons of recorded modification times", n, 8)


def a7(prog, ctx):
    """A cached conversion is looked up for THIS run's input: the database path handed to the validity test is the run's own, not
    one taken from the cache."""
    from ..engine import taint, argswap
    entry = prog.func("src/gtf2db.py", "convert_db")
    callee = prog.try_func("src/gtf2db.py", "compare_stored_gtf")
    if callee is None:
        raise AnalysisError("compare_stored_gtf not found")
    cache_param = callee.args.args[0].arg if callee.args.args else None
    n = 0
    reported = set()
    f = entry
    for m, q, fn in prog.all_functions():
        if m.rel != "src/gtf2db.py" or fn is callee:
            continue
        calls = [c for c in walk_no_nested(fn) if isinstance(c, ast.Call) and call_name(c) == "compare_stored_gtf"]
        if not calls:
            continue
        # the cache object: what load_json_cache returned here, and whatever this function hands to the validity test as the cache
        loaded = {st.targets[0].id for st in walk_no_nested(fn) if isinstance(st, ast.Assign) and isinstance(st.targets[0], ast.Name)
                  and isinstance(st.value, ast.Call) and call_name(st.value) == "load_json_cache"}
        for c in calls:
            a = argswap.bind_args(c, callee).get(cache_param)
            if isinstance(a, ast.Name):
                loaded.add(a.id)
        if not loaded:
            ctx.undecided("A7", calls[0], q, "the cache object handed to compare_stored_gtf is not a plain local")
            continue
        for pth in flow.paths(fn):
            def look(st, env, fn=fn):
                nonlocal n
                for c in (x for x in ast.walk(st) if isinstance(x, ast.Call) and call_name(x) == "compare_stored_gtf"):
                    b = argswap.bind_args(c, callee)
                    arg = next((v for k, v in b.items() if "db" in k and "gtfs" not in k and "converted" not in k), None)
                    if arg is None:
                        continue
                    n += 1
                    if "cache" in taint.influence(arg, env) and id(c) not in reported:
                        reported.add(id(c))
                        ctx.fail("A7", c, fn._qualname, src(c)[:90], "the database path given to the validity test (%s) is taken from the shared cache, "
                                 "not from this run's own input: every intact record then validates itself and the run is handed a file that was "
                                 "converted from another run's annotation" % src(arg)[:50])
            taint.run(pth, {name: {"cache"} for name in loaded}, on_stmt=look)
    if not reported:
        ctx.ok("A7", "src/gtf2db.py:%d" % f.lineno, "compare_stored_gtf is always given the run's own database path")
    ctx.floor("A7", "calls of compare_stored_gtf on the paths of the conversion look-up", n, 1)


PRIVATE_NAME = re.compile(r"getpid|uuid|mkstemp|mkdtemp|NamedTemporaryFile|TemporaryDirectory|token_hex|urandom")


def a8(prog, ctx):
    """A file that a run creates in a directory it shares with the user's other runs (the system temporary directory, the per-user config
    directory) carries a process-private component in its name, or comes from mkstemp / mkdtemp: two runs must never build the same path."""
    n = 0
    for m, q, f in prog.all_functions():
        for c in walk_no_nested(f):
            if not (isinstance(c, ast.Call) and (call_name(c) or "") in ("tempfile.gettempdir", "gettempdir")):
                continue
            n += 1
            # the path expression the directory is built into, followed through a local
            e = c
            while isinstance(getattr(e, "_parent", None), (ast.Call, ast.BinOp, ast.JoinedStr, ast.FormattedValue)) and \
                    not (isinstance(e._parent, ast.Call) and (call_name(e._parent) or "").split(".")[-1] not in ("join", "format", "abspath", "normpath", "str")):
                e = e._parent
            text = src(e)
            st = enclosing_stmt(c)
            if isinstance(st, ast.Assign) and isinstance(st.targets[0], ast.Name) and st.value is c:
                # tmp = tempfile.gettempdir(): look at the joins that use it
                uses = [x for x in walk_no_nested(f) if isinstance(x, ast.Call) and (call_name(x) or "").endswith("join")
                        and any(src(a) == st.targets[0].id for a in x.args)]
                text = " ".join(src(u) for u in uses) or text
            if PRIVATE_NAME.search(text):
                ctx.ok("A8", "%s:%d" % (m.rel, c.lineno), "%s: path under the temporary directory is process-private (%s)" % (q, text[:60]))
            else:
                ctx.fail("A8", c, q, text[:90], "a file name under the system temporary directory is built from %s without a process-private "
                         "component: two runs of the same user that work on equally named inputs build, overwrite and move the same file - one "
                         "run ends up with the other's data (or fails when the file has been moved away)" % text[:70])
    ctx.ok("A8", "all modules", "%d uses of the system temporary directory, all with process-private names" % n, nontrivial=False)


def a9(prog, ctx, shared):
    """A run deletes in the shared per-user directory only what it created itself: never files it found by listing that directory."""
    n = 0
    for m, q, f in prog.all_functions():
        listings = {}
        for lp in [l for l in walk_no_nested(f) if isinstance(l, ast.For)]:
            it = src(lp.iter)
            if re.search(r"os\.listdir|glob\.|os\.scandir|iterdir\(", it):
                for x in ast.walk(lp.target):
                    if isinstance(x, ast.Name):
                        listings[x.id] = lp
        if not listings:
            continue
        env = {}
        for st in walk_no_nested(f):
            if isinstance(st, ast.Assign) and len(st.targets) == 1 and isinstance(st.targets[0], ast.Name):
                env.setdefault(st.targets[0].id, []).append(st.value)
        for c in walk_no_nested(f):
            if not (isinstance(c, ast.Call) and (call_name(c) or "") in ("os.remove", "os.unlink", "shutil.rmtree", "os.rmdir") and c.args):
                continue
            names = {x.id for x in ast.walk(c.args[0]) if isinstance(x, ast.Name)}
            for nm in list(names):
                for v in env.get(nm, []):
                    names |= {x.id for x in ast.walk(v) if isinstance(x, ast.Name)}
            found = names & set(listings)
            if not found:
                continue
            lp = listings[sorted(found)[0]]
            # which directory is listed?
            dir_roots = {x.id for x in ast.walk(lp.iter) if isinstance(x, ast.Name)} | {x.attr for x in ast.walk(lp.iter) if isinstance(x, ast.Attribute)}
            for nm in [x for x in dir_roots if x in env]:
                for v in env[nm]:
                    dir_roots |= {x.attr for x in ast.walk(v) if isinstance(x, ast.Attribute)}
            if not (dir_roots & set(shared)):
                continue
            n += 1
            own = any(PRIVATE_NAME.search(src(t)) for t, pol in flow.guard_facts(enclosing_stmt(c), stop=f) if pol)
            if own:
                ctx.ok("A9", "%s:%d" % (m.rel, c.lineno), "%s deletes listed files only under a test for its own process-private name" % q)
            else:
                ctx.fail("A9", c, q, src(c)[:80], "files found by listing the shared per-user directory (%s) are deleted without a test that they "
                         "belong to this process: the temporary file of another run that is between writing and publishing its cache "
                         "disappears, and that run aborts" % src(lp.iter)[:50])
    ctx.ok("A9", "all modules", "%d deletions of files listed from the shared directory" % n, nontrivial=False)


def a10(prog, ctx):
    """An alignment that is registered in the per-user cache can be used by a concurrent run at once: when store_alignment(<bam>, ...) is
    called, the BAM is sorted AND indexed - pysam's index call lies on every path of the producer before it returns the path, not in a
    later batch step."""
    RM = "src/read_mapper.py"
    n = 0
    for m, q, f in prog.all_functions():
        if m.rel != RM:
            continue
        for c in walk_no_nested(f):
            if not (isinstance(c, ast.Call) and call_name(c) == "store_alignment" and c.args and isinstance(c.args[0], ast.Name)):
                continue
            n += 1
            defs = [st.value for st in walk_no_nested(f) if isinstance(st, ast.Assign) and any(src(t) == c.args[0].id for t in st.targets)
                    and isinstance(st.value, ast.Call) and prog.try_func(RM, (call_name(st.value) or "").split(".")[-1]) is not None
                    and not (call_name(st.value) or "").startswith("find_")]
            if not defs:
                ctx.undecided("A10", c, q, "the producer call of the registered alignment %s was not found" % c.args[0].id)
                continue
            for d in defs:
                prod = prog.func_inlined(RM, (call_name(d) or "").split(".")[-1])
                missing = None
                for pth in flow.paths(prod):
                    if pth.exit != "return" or pth.exit_node is None or pth.exit_node.value is None:
                        continue
                    if any(isinstance(st, ast.Expr) and isinstance(st.value, ast.Call) and (call_name(st.value) or "") in ("exit", "sys.exit", "os._exit", "quit")
                           for st in pth.stmts()):
                        continue          # the process ends on this path
                    indexed = any(isinstance(x, ast.Call) and (call_name(x) or "") in ("pysam.index", "pysam.samtools.index")
                                  for st in pth.stmts() for x in ast.walk(st) if not isinstance(st, (ast.For, ast.While, ast.If, ast.With, ast.Try)))
                    if not indexed:
                        missing = pth
                        break
                if missing is not None:
                    ctx.fail("A10", c, q, src(c)[:80], "%s is registered in the shared alignment cache, but its producer %s returns on the path "
                             "[%s] without having indexed it: a concurrent run that finds the entry opens a BAM whose index does not exist "
                             "yet and aborts" % (c.args[0].id, call_name(d), missing.describe()[:120]))
                else:
                    ctx.ok("A10", "%s:%d" % (RM, c.lineno), "%s: %s() indexes the BAM on every path before returning it" % (q, call_name(d)))
    ctx.floor("A10", "registrations of alignments in the shared cache", n, 1)


def run(prog, ctx):
    ctx.rule("A10", "the producer call whose result is passed to store_alignment runs pysam.index on every path that returns a BAM path")
    a10(prog, ctx)
    ctx.rule("A8", "every path built under tempfile.gettempdir() contains a process-private component (pid, uuid, mkstemp ...)")
    a8(prog, ctx)
    ctx.rule("A9", "no os.remove / unlink / rmtree is applied to a name obtained by listing a directory derived from the shared per-user "
                   "config paths, except under a test for the process's own private name")
    a9(prog, ctx, shared_attrs(prog))
    ctx.rule("A5", "every store_*(artefact, ...) call registers a local whose every reaching definition is a producer call of this run "
                   "(or a fresh path under args.output filled by a converter call in the same block); user-supplied or looked-up files "
                   "are never registered under the input's key")
    a5(prog, ctx)
    ctx.rule("A6", "every comparison that involves os.path.getmtime(...) in the cache modules uses == or != only")
    a6(prog, ctx)
    ctx.rule("A7", "wherever compare_stored_gtf is called, the database path handed to it does not depend (influence propagation, path-wise) on "
                   "the cache object (what load_json_cache returned / what is passed as the callee's cache argument): it is the run's own input")
    a7(prog, ctx)
    ctx.rule("A1", "every write to a shared per-user cache file is an atomic publish: content goes to a temporary sibling and is "
                   "moved over the shared path with os.replace; never open(shared, 'w') + json.dump in place (directly or via a helper)")
    ctx.rule("A2", "every json.load of a shared cache file sits in try blocks that treat a missing or undecodable file as absent")
    ctx.rule("A3", "no os.path.exists(shared) test guards an in-place creation of the shared file (check-then-act); the shared "
                   "directory is created with exist_ok=True or under a FileExistsError handler")
    ctx.rule("A4", "the temporary sibling used by an atomic publish of a shared cache is process-private (pid / uuid / mkstemp)")
    shared = shared_attrs(prog)
    ctx.floor("A1", "shared cache path attributes", len(shared), 4)
    an = Analyser(prog, ctx, shared)
    writes = reads = 0
    for m, q, f in prog.all_functions():
        loc = an.shared_locals(f)
        eff = an.effects_on(f, lambda e, loc=loc: an.is_shared(e, loc))
        for kind, site in eff:
            where = "%s:%d" % (m.rel, site.lineno)
            if kind == "write-inplace":
                writes += 1
                ctx.fail("A1", site, q, src(site),
                         "shared cache file is (re)written in place: a concurrent IsoQuant run that reads it between truncation "
                         "and the end of json.dump sees an empty or half-written file and dies in json.load")
                # A3: guarded by an exists() test on the same path?
                for g in flow.guards_of(site, stop=f):
                    if "os.path.exists" in src(g.test):
                        ctx.fail("A3", site, q, "if %s: %s" % (g.text(), src(site)),
                                 "check-then-act creation of a shared cache file: two runs starting together both see it missing "
                                 "and both truncate/write it in place")
            elif kind == "atomic-publish":
                writes += 1
                ctx.ok("A1", where, "%s publishes shared cache atomically: %s" % (q, src(site)))
            elif kind == "read-raw":
                reads += 1
                ctx.fail("A2", site, q, src(site),
                         "json.load of a shared cache file is not protected against a missing or half-written file "
                         "(no enclosing try catching ValueError/JSONDecodeError and OSError)")
            elif kind == "read-tolerant":
                reads += 1
                ctx.ok("A2", where, "%s reads shared cache tolerantly" % q)
    ctx.floor("A1", "write sites of shared cache files", writes, 4)
    # A4: the temporary sibling of an atomic publish must be private to the publishing process
    for m, q, f in prog.all_functions():
        for c in walk_no_nested(f):
            if isinstance(c, ast.Call) and call_name(c) in ("os.replace", "os.rename") and len(c.args) == 2:
                tmp = c.args[0]
                params = [a.arg for a in f.args.args]
                dst_is_param = isinstance(c.args[1], ast.Name) and c.args[1].id in params
                # only publishers of shared caches (helpers called with a shared path) or direct shared targets
                loc = an.shared_locals(f)
                is_shared_pub = an.is_shared(c.args[1], loc) or (dst_is_param and any(
                    kind == "atomic-publish" for kind, _s in an.param_effects(f, c.args[1].id)) and f.name.endswith("json_cache"))
                if not is_shared_pub:
                    continue
                t = tmp
                if isinstance(t, ast.Name):
                    defs = [s_ for s_ in walk_no_nested(f) if isinstance(s_, ast.Assign) and src(s_.targets[0]) == t.id]
                    t = defs[-1].value if defs else t
                txt = src(t)
                private = any(k in txt for k in ("os.getpid()", "uuid", "mkstemp", "NamedTemporaryFile", "mktemp", "threading.get_ident"))
                if not private:
                    ctx.fail("A4", c, q, "%s -> %s" % (txt, src(c.args[1])),
                             "the temporary file of the atomic publish has the same name for every process (%s): two runs "
                             "publishing together write into / rename away each other's temp file (FileNotFoundError or a "
                             "half-written cache gets published)" % txt)
                else:
                    ctx.ok("A4", "%s:%d" % (m.rel, c.lineno), "temp sibling is process-private: %s" % txt)
    # A3': creation of the shared directory must be race-free
    scd = prog.func("isoquant.py", "set_configs_directory")
    mk = [c for c in walk_no_nested(scd) if isinstance(c, ast.Call) and call_name(c) in ("os.makedirs", "os.mkdir")]
    for c in mk:
        ok_kw = any(k.arg == "exist_ok" and isinstance(k.value, ast.Constant) and k.value.value is True for k in c.keywords)
        st = c
        while not isinstance(st, ast.stmt):
            st = st._parent
        guarded = any("os.path.exists" in src(t) or "os.path.isdir" in src(t) for t, p in flow.guard_facts(st, stop=scd))
        in_try = False
        cur = st
        while cur is not None and cur is not scd:
            par = cur._parent
            if isinstance(par, ast.Try) and any(cur is x for x in par.body) and any(
                    h.type is None or "FileExistsError" in src(h.type) or "OSError" in src(h.type) for h in par.handlers):
                in_try = True
            cur = par
        if not ok_kw and not in_try:
            ctx.fail("A3", c, scd._qualname, src(st)[:100],
                     "the shared per-user cache directory is created with a check-then-create sequence (%s): two runs starting "
                     "together both see it missing and the second os.makedirs raises FileExistsError"
                     % ("exists() test + makedirs" if guarded else "makedirs without exist_ok=True"))
        else:
            ctx.ok("A3", "isoquant.py:%d" % c.lineno, "shared directory created race-free (%s)" % ("exist_ok=True" if ok_kw else "FileExistsError handled"))
    if not mk:
        ctx.fail("A3", scd, scd._qualname, "makedirs", "the shared cache directory is never created")
    ctx.floor("A2", "read sites of shared cache files", reads, 7)
    ctx.extra["shared_paths"] = sorted(shared)
    ctx.assume("lost updates between two read-modify-write cycles only cost a later re-conversion and do not break the property")
    ctx.assume("the mtime/flag comparison that prevents using another input's conversion is runtime-valued and not decided")
    ctx.assume("os.replace on one file system is atomic (POSIX rename)")
