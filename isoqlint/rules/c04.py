"""C04 - novel transcripts evidence-backed, correctly labelled (structural part).

N1 label <-> type <-> guard: .nic / novel_in_catalog exactly under "all introns annotated", .nnic otherwise
N2 every model dropped by a filter also drops its read list (transcript_model_reads cannot name it)
"""
import ast

from ..engine.program import AnalysisError, dotted, src, walk_no_nested, call_name
from ..engine import flow

GMC = "src/graph_based_model_construction.py"
PAIR = {"nic_transcript_suffix": "novel_in_catalog", "nnic_transcript_suffix": "novel_not_in_catalog"}


def subset_idiom(test):
    """(P, K, polarity) if test says 'every element of P is in K' (polarity True) ."""
    t = test
    pol = True
    if isinstance(t, ast.UnaryOp) and isinstance(t.op, ast.Not):
        t = t.operand
        pol = False
    if isinstance(t, ast.Call) and dotted(t.func) in ("all", "any") and len(t.args) == 1 \
            and isinstance(t.args[0], (ast.GeneratorExp, ast.ListComp)) and len(t.args[0].generators) == 1:
        g = t.args[0].generators[0]
        elt = t.args[0].elt
        if g.ifs:
            return None
        if isinstance(elt, ast.Compare) and len(elt.ops) == 1 and src(elt.left) == src(g.target):
            if dotted(t.func) == "all" and isinstance(elt.ops[0], ast.In):
                return src(g.iter), src(elt.comparators[0]), pol
            if dotted(t.func) == "any" and isinstance(elt.ops[0], ast.NotIn):
                return src(g.iter), src(elt.comparators[0]), not pol
        return None
    if isinstance(t, ast.Compare) and len(t.ops) == 1 and isinstance(t.ops[0], ast.LtE):
        l = t.left
        if isinstance(l, ast.Call) and dotted(l.func) in ("set", "frozenset") and l.args:
            return src(l.args[0]), src(t.comparators[0]), pol
    if isinstance(t, ast.Call) and isinstance(t.func, ast.Attribute) and t.func.attr == "issubset" and t.args:
        l = t.func.value
        if isinstance(l, ast.Call) and dotted(l.func) in ("set", "frozenset") and l.args:
            return src(l.args[0]), src(t.args[0]), pol
    if isinstance(t, ast.Call) and isinstance(t.func, ast.Attribute) and t.func.attr == "issuperset" and t.args:
        return src(t.args[0]), src(t.func.value), pol
    return None


def n1(prog, ctx):
    cls = prog.cls(GMC, "GraphBasedModelConstructor")
    n = 0
    for q in ("GraphBasedModelConstructor.construct_fl_isoforms", "GraphBasedModelConstructor.generate_monoexon_from_clustered"):
        f = prog.func(GMC, q)
        ctors = [c for c in walk_no_nested(f) if isinstance(c, ast.Call) and call_name(c) == "TranscriptModel"]
        if not ctors:
            raise AnalysisError("%s constructs no TranscriptModel" % q)
        # suffix/type assignments grouped by block
        blocks = {}
        for st in walk_no_nested(f):
            if isinstance(st, ast.Assign) and isinstance(st.targets[0], ast.Name):
                v = dotted(st.value) or ""
                if v.startswith("TranscriptNaming.") and v.endswith("_transcript_suffix"):
                    blocks.setdefault(id(st._parent) if not isinstance(st._parent, ast.If) else (id(st._parent), any(st is x for x in st._parent.body)), {})["suffix"] = (st, v.split(".")[1])
                elif v.startswith("TranscriptModelType.novel"):
                    blocks.setdefault(id(st._parent) if not isinstance(st._parent, ast.If) else (id(st._parent), any(st is x for x in st._parent.body)), {})["type"] = (st, v.split(".")[1])
        suffix_vars = {d_["suffix"][0].targets[0].id for d_ in blocks.values() if "suffix" in d_}
        type_vars = {d_["type"][0].targets[0].id for d_ in blocks.values() if "type" in d_}
        rename = {}
        if not blocks:
            # the decision may live in a helper method returning (type, suffix): follow `a, b = self.helper(path)`
            meths = prog.methods_of(cls)
            for st in walk_no_nested(f):
                if isinstance(st, ast.Assign) and isinstance(st.targets[0], ast.Tuple) and isinstance(st.value, ast.Call) \
                        and isinstance(st.value.func, ast.Attribute) and dotted(st.value.func.value) == "self" and st.value.func.attr in meths:
                    h = meths[st.value.func.attr]
                    hp = [a.arg for a in h.args.args][1:]
                    for r in walk_no_nested(h):
                        if isinstance(r, ast.Return) and isinstance(r.value, ast.Tuple):
                            d = {}
                            for e in r.value.elts:
                                v = dotted(e) or ""
                                if v.startswith("TranscriptNaming.") and v.endswith("_transcript_suffix"):
                                    d["suffix"] = (r, v.split(".")[1])
                                elif v.startswith("TranscriptModelType.novel"):
                                    d["type"] = (r, v.split(".")[1])
                            if d:
                                blocks[id(r)] = d
                                d["helper"] = h
                    rename.update({pn: src(a) for pn, a in zip(hp, st.value.args)})
                    # which caller variables receive the returned type / suffix
                    for r in walk_no_nested(h):
                        if isinstance(r, ast.Return) and isinstance(r.value, ast.Tuple) and len(r.value.elts) == len(st.targets[0].elts):
                            for e, t_ in zip(r.value.elts, st.targets[0].elts):
                                v = dotted(e) or ""
                                if isinstance(t_, ast.Name) and v.endswith("_transcript_suffix"):
                                    suffix_vars.add(t_.id)
                                elif isinstance(t_, ast.Name) and v.startswith("TranscriptModelType."):
                                    type_vars.add(t_.id)
        if not blocks:
            ctx.undecided("N1", f, q, "no id-suffix / model-type assignments found (the label is decided somewhere else)")
            continue
        for key, d in blocks.items():
            n += 1
            if "suffix" not in d or "type" not in d:
                st = (d.get("suffix") or d.get("type"))[0]
                ctx.undecided("N1", st, q, "id suffix and model type are not assigned together in one branch: %s" % src(st)[:80])
                continue
            (s_st, suf), (t_st, typ) = d["suffix"], d["type"]
            if PAIR.get(suf) != typ:
                ctx.fail("N1", s_st, q, "%s ; %s" % (src(t_st), src(s_st)), "suffix %s is paired with type %s (must be %s)" % (suf, typ, PAIR.get(suf)))
                continue
            # guard of the branch
            facts = flow.guards_of(s_st, stop=d.get("helper", f))
            sub = None
            for g in reversed(facts):
                r = subset_idiom(g.test)
                if r is not None:
                    P, K, pol = r
                    sub = (P, K, pol if g.polarity else not pol, g)
                    break
            if q.endswith("construct_fl_isoforms"):
                if sub is None:
                    ctx.fail("N1", s_st, q, src(s_st), "the %s label is not decided by an 'all introns annotated' subset test" % suf)
                    continue
                P, K, holds, g = sub
                P = rename.get(P, P)
                want = suf.startswith("nic")
                if holds != want:
                    ctx.fail("N1", s_st, q, "%s under %s" % (src(s_st), g.text()),
                             "label %s is assigned when 'all introns of the path are annotated' is %s" % (suf, holds))
                    continue
                if K != "self.known_introns":
                    ctx.fail("N1", g.test, q, g.text(), "the subset test is made against %s, not the annotated intron set" % K)
                    continue
                ctx.ok("N1", "%s:%d" % (GMC, s_st.lineno), "%s / %s under: every intron of %s %s in %s" % (suf, typ, P, "is" if holds else "is not all", K))
                ctx.extra.setdefault("n1_paths", set()).add(P)
            else:
                # mono-exonic novel models are nnic (documented: no introns -> cannot be 'only annotated introns')
                if suf != "nnic_transcript_suffix":
                    ctx.fail("N1", s_st, q, src(s_st), "mono-exonic novel models must be labelled nnic")
                else:
                    ctx.ok("N1", "%s:%d" % (GMC, s_st.lineno), "mono-exon novel model: nnic / novel_not_in_catalog")
        # the constructor call uses these variables, and the model's intron path is the tested path
        from ..engine import argswap
        tm_init = prog.func("src/gene_info.py", "TranscriptModel.__init__")
        exon_args = []
        for c in ctors:
            b_ = argswap.bind_args(c, tm_init, bound_method=True)
            id_names = {x.id for x in ast.walk(b_["transcript_id"]) if isinstance(x, ast.Name)} if "transcript_id" in b_ else set()
            ty = b_.get("transcript_type")
            if not (id_names & suffix_vars) or not (isinstance(ty, ast.Name) and ty.id in type_vars):
                ctx.undecided("N1", c, q, "TranscriptModel is not built from the id_suffix / transcript_type variables decided above: %s" % src(c)[:80])
            else:
                ctx.ok("N1", "%s:%d" % (GMC, c.lineno), "TranscriptModel(id + id_suffix, ..., transcript_type)")
            if "exon_blocks" in b_:
                exon_args.append(b_["exon_blocks"])
        if q.endswith("construct_fl_isoforms"):
            paths = ctx.extra.get("n1_paths", set())
            ip = [st for st in walk_no_nested(f) if isinstance(st, ast.Assign) and src(st.targets[0]).endswith(".intron_path")]
            # the exon list handed to the constructor (through its local, if any) is computed from the tested path
            ex = []
            for ea in exon_args:
                if isinstance(ea, ast.Name):
                    ex += [st for st in walk_no_nested(f) if isinstance(st, ast.Assign) and src(st.targets[0]) == ea.id]
                else:
                    ex.append(ast.Assign(targets=[ast.Name(id="_", ctx=ast.Store())], value=ea))
            if not paths:
                ctx.undecided("N1", f, q, "the path tested against the annotation could not be identified")
            elif len(paths) != 1 or len(ip) != 1 or src(ip[0].value) not in paths or len(ex) != 1 or not any(p in src(ex[0].value) for p in paths):
                ctx.fail("N1", f, q, "intron path", "the path tested against the annotation (%s) is not the one the model's exons and "
                         "intron_path are built from" % sorted(paths))
            else:
                ctx.ok("N1", "%s:%d" % (GMC, ip[0].lineno), "tested path %s is the model's intron_path and the source of its exons" % sorted(paths))
            ctx.extra["n1_paths"] = sorted(paths)
    # K: only definition is the annotation's intron list
    kdefs = []
    for node in ast.walk(cls):
        if isinstance(node, ast.Assign) and any(dotted(t) == "self.known_introns" for t in node.targets):
            kdefs.append(node)
    forms = sorted(src(k.value) for k in kdefs)
    if forms != ["set()", "set(self.gene_info.intron_profiles.features)"]:
        ctx.fail("N1", kdefs[0] if kdefs else cls, "GraphBasedModelConstructor", "self.known_introns = %s" % forms,
                 "known_introns is not (only) the set of the annotation's introns")
    else:
        ctx.ok("N1", "%s:%d" % (GMC, kdefs[-1].lineno), "known_introns = set(gene_info.intron_profiles.features), nothing else")
    # and it is set before the FL isoforms are constructed; nobody mutates it
    pr = prog.func(GMC, "GraphBasedModelConstructor.process")
    order = [src(st) for st in pr.body]
    try:
        i_set = [i for i, t in enumerate(order) if t.startswith("self.known_introns =")][0]
        i_use = [i for i, t in enumerate(order) if "self.construct_fl_isoforms()" in t][0]
        if i_set > i_use:
            ctx.fail("N1", pr, pr._qualname, "order", "known_introns is filled after construct_fl_isoforms runs")
        else:
            ctx.ok("N1", "%s:%d" % (GMC, pr.lineno), "known_introns filled before construct_fl_isoforms")
    except IndexError:
        ctx.fail("N1", pr, pr._qualname, "process", "process() no longer sets known_introns and then calls construct_fl_isoforms")
    for node in ast.walk(cls):
        if isinstance(node, ast.Call) and isinstance(node.func, ast.Attribute) and src(node.func.value) == "self.known_introns" \
                and node.func.attr in ("add", "update", "discard", "remove", "clear", "difference_update"):
            ctx.fail("N1", node, "GraphBasedModelConstructor", src(node), "known_introns is mutated after construction")
    ctx.floor("N1", "label/type decision blocks", n, 3)
    # N3: the known-chain suppression looks the *intron chain* up in the table keyed by intron chains
    f = prog.func(GMC, "GraphBasedModelConstructor.construct_fl_isoforms")
    tests = [c for c in walk_no_nested(f) if isinstance(c, ast.Compare) and isinstance(c.ops[0], (ast.In, ast.NotIn))
             and src(c.comparators[0]) == "self.known_isoforms_in_graph"]
    paths = ctx.extra.get("n1_paths") or []
    g = prog.func(GMC, "GraphBasedModelConstructor.get_known_spliced_isoforms")
    # the key stored is tuple(<local>) where <local> is the result of thread_introns(...) (whatever the local is called)
    thr = [s_ for s_ in walk_no_nested(g) if isinstance(s_, ast.Assign) and isinstance(s_.targets[0], ast.Name) and "thread_introns" in src(s_.value)]
    thr_names = {s_.targets[0].id for s_ in thr}
    keyed = [s_ for s_ in walk_no_nested(g) if isinstance(s_, ast.Assign) and isinstance(s_.targets[0], ast.Subscript)
             and isinstance(s_.targets[0].slice, ast.Call) and call_name(s_.targets[0].slice) == "tuple" and s_.targets[0].slice.args
             and src(s_.targets[0].slice.args[0]) in thr_names]
    if not keyed or not thr:
        ctx.fail("N3", g, g._qualname, "known_isoforms key", "known_isoforms_in_graph is no longer keyed by the threaded intron chain")
    if not tests:
        ctx.fail("N3", f, f._qualname, "known-chain test", "no test of the path against known_isoforms_in_graph remains (known intron "
                 "chains would be reported as novel transcripts)")
    for c in tests:
        if not paths:
            ctx.undecided("N3", c, f._qualname, "the path tested against the annotation could not be identified (N1 undecided)")
        elif src(c.left) not in paths:
            ctx.fail("N3", c, f._qualname, src(c), "known-chain suppression looks up %s, but the table is keyed by pure intron chains "
                     "(the tested path %s, without terminal vertices): the lookup can never succeed and a novel model duplicating a "
                     "reference intron chain is reported" % (src(c.left), paths))
        else:
            ctx.ok("N3", "%s:%d" % (GMC, c.lineno), "known-chain suppression keyed by the intron chain %s" % src(c.left))


def n2(prog, ctx):
    n = 0
    for q in ("GraphBasedModelConstructor.pre_filter_transcripts", "GraphBasedModelConstructor.filter_transcripts"):
        f = prog.func(GMC, q)
        loops = [l for l in f.body if isinstance(l, ast.For) and isinstance(l.target, ast.Name)
                 and any(isinstance(c, ast.Call) and isinstance(c.func, ast.Attribute) and c.func.attr == "append"
                         and c.args and src(c.args[0]) == l.target.id for c in ast.walk(l))]
        if not loops:
            raise AnalysisError("%s: no filtering loop found" % q)
        for l in loops:
            mv = l.target.id
            for p in flow.block_paths(l.body, what=q):
                n += 1
                appended = False
                deleted = False
                for st in p.stmts():
                    for c in [x for x in walk_no_nested(st) if isinstance(x, ast.Call)] if not isinstance(st, (ast.For, ast.While, ast.If)) else []:
                        if isinstance(c.func, ast.Attribute) and c.func.attr == "append" and c.args and src(c.args[0]) == mv:
                            appended = True
                        if src(c.func) == "self.delete_from_storage" and c.args and src(c.args[0]) == "%s.transcript_id" % mv:
                            deleted = True
                where = p.exit_node if p.exit_node is not None else l
                if not appended and not deleted:
                    ctx.fail("N2", where, q, src(where) if p.exit_node is not None else "end of loop body",
                             "a model leaves the filter without being kept and without delete_from_storage: its reads stay in "
                             "transcript_read_ids and transcript_model_reads.tsv names a transcript that is not in the GTF",
                             path=p.describe())
                elif appended and deleted:
                    ctx.fail("N2", where, q, src(where) if p.exit_node is not None else "end of loop body",
                             "a kept model has its read list deleted", path=p.describe())
                else:
                    ctx.ok("N2", "%s:%d" % (GMC, where.lineno), "%s: model %s on path %s" % (q.split(".")[-1], "kept" if appended else "dropped+forgotten", p.describe()[:90]))
        # the filtered list replaces the storage
        last = f.body[-1]
        if not (isinstance(last, ast.Assign) and src(last.targets[0]) == "self.transcript_model_storage"):
            ctx.fail("N2", f, q, "final assignment", "the filtered list does not replace transcript_model_storage")
    d = prog.func(GMC, "GraphBasedModelConstructor.delete_from_storage")
    if "del self.transcript_read_ids[transcript_id]" not in src(d):
        ctx.fail("N2", d, d._qualname, "delete_from_storage", "delete_from_storage does not delete the model's read list")
    else:
        ctx.ok("N2", "%s:%d" % (GMC, d.lineno), "delete_from_storage removes transcript_read_ids[id] and decrements read counts")
    pr = prog.func("src/transcript_printer.py", "GFFPrinter.dump_read_assignments")
    if "transcript_model_constructor.transcript_read_ids" not in src(pr):
        ctx.fail("N2", pr, pr._qualname, "source", "read->model map is not printed from transcript_read_ids")
    else:
        ctx.ok("N2", "src/transcript_printer.py:%d" % pr.lineno, "transcript_model_reads printed from transcript_read_ids only")
    ctx.floor("N2", "filter-loop paths", n, 12)


def n4(prog, ctx):
    """Evidence for every intron of a model: the intron chains that become models are read (or isoform) intron chains after
    substitution by the graph's representative introns; the substitution must not make two neighbouring introns touch or overlap,
    otherwise the exon between them disappears and the model carries one merged intron that no read has."""
    from ..engine import taint, linform
    f = prog.func(GMC, "IntronPathProcessor.thread_introns")
    loops = [l for l in walk_no_nested(f) if isinstance(l, ast.For)]
    if len(loops) != 1:
        raise AnalysisError("thread_introns: expected one loop over the introns of a chain")
    loop = loops[0]
    appends = [c for c in walk_no_nested(loop) if isinstance(c, ast.Call) and isinstance(c.func, ast.Attribute) and c.func.attr == "append"
               and len(c.args) == 1]
    if not appends:
        raise AnalysisError("thread_introns: no <path>.append(<intron>) in the loop")
    n = 0
    for c in appends:
        n += 1
        seq = src(c.func.value)
        new = c.args[0]
        env = {a.targets[0].id: a.value for a in walk_no_nested(loop) if isinstance(a, ast.Assign) and len(a.targets) == 1
               and isinstance(a.targets[0], ast.Name)}
        new_t = src(new)
        ordered_on_all = True
        why = None
        st = c
        while not isinstance(st, ast.stmt):
            st = st._parent
        guards = [g for g in flow.guards_of(st, stop=loop)]
        # guard clauses of the loop body that precede the append (if <cond>: return/continue) hold negated at the append
        facts = [(g.test, g.polarity) for g in guards]
        for prev in loop.body:
            if prev is st or (hasattr(prev, "lineno") and prev.lineno >= st.lineno):
                break
            if isinstance(prev, ast.If) and not prev.orelse and flow.always_exits(prev.body):
                facts.append((prev.test, False))
        alts = [[]]
        for t, pol in facts:
            d = flow.dnf(t, pol)
            alts = [a + b for a in alts for b in d]
        if not facts:
            ordered_on_all, why = False, "nothing is tested before the substituted intron is appended"
        for alt in alts:
            ok = False
            for atom, pol in alt:
                at = src(atom)
                if at == seq and not pol:
                    ok = True                       # the chain is still empty: first intron
                if isinstance(atom, ast.Compare) and len(atom.ops) == 1 and len(atom.comparators) == 1:
                    l, r, op = atom.left, atom.comparators[0], type(atom.ops[0])
                    if not pol:
                        op = {ast.Lt: ast.GtE, ast.LtE: ast.Gt, ast.Gt: ast.LtE, ast.GtE: ast.Lt}.get(op, None)
                    if op is None:
                        continue
                    d = dict(linform.linform(l))
                    for k, v in linform.linform(r).items():
                        d[k] = d.get(k, 0) - v
                    d = {k: v for k, v in d.items() if v}
                    start_keys = {new_t + "[0]"} | ({src(env[new.id]) + "[0]"} if isinstance(new, ast.Name) and new.id in env else set())
                    prev_key = seq + "[-1][1]"
                    ks = set(d) - {"1"}
                    sk = ks & start_keys
                    if len(ks) == 2 and len(sk) == 1 and prev_key in ks:
                        a, b, c0 = d[next(iter(sk))], d[prev_key], d.get("1", 0)
                        # a*start + b*prev + c0 (op) 0
                        if a == 1 and b == -1:
                            # start - prev + c0 > 0  => start - prev >= 1 - c0 ;  >= 0 => start - prev >= -c0
                            gap = (1 - c0) if op is ast.Gt else (-c0 if op is ast.GtE else None)
                        elif a == -1 and b == 1:
                            # prev - start + c0 < 0 => start - prev >= c0 + 1 ; <= 0 => start - prev >= c0
                            gap = (c0 + 1) if op is ast.Lt else (c0 if op is ast.LtE else None)
                        else:
                            gap = None
                        if gap is not None and gap >= 2:
                            ok = True
            if not ok:
                ordered_on_all = False
                why = why or "on the branch {%s} nothing implies start of the new intron >= end of the previous one + 2" % \
                    "; ".join(("" if p_ else "not ") + src(a_)[:50] for a_, p_ in alt)
        if ordered_on_all:
            ctx.ok("N4", "%s:%d" % (GMC, c.lineno), "thread_introns appends a substituted intron only when it starts at least 2 bases after the "
                   "previous one ends (an exon remains between them)")
        else:
            ctx.fail("N4", c, f._qualname, src(st)[:90],
                     "a read's intron chain is rewritten intron by intron to the graph's representative introns and appended unchecked (%s): "
                     "when a micro-exon shorter than the clustering distance separates two introns, the representative of the first can "
                     "reach beyond the start of the second, get_exons drops the exon between them and the reported model contains a merged "
                     "intron that is present in no read" % why)
    # every chain stored as a candidate path comes out of thread_introns
    g = prog.func(GMC, "IntronPathStorage.fill")
    stores = 0
    for pth in flow.paths(g):
        env = taint.run(pth, {})
        for st in pth.stmts():
            keys = []
            if isinstance(st, ast.AugAssign) and isinstance(st.target, ast.Subscript) and src(st.target.value).startswith("self."):
                keys.append(st.target.slice)
            elif isinstance(st, ast.Expr) and isinstance(st.value, ast.Call) and isinstance(st.value.func, ast.Attribute) \
                    and st.value.func.attr in ("add", "append") and src(st.value.func.value).startswith("self."):
                recv = st.value.func.value
                keys.append(recv.slice if isinstance(recv, ast.Subscript) else (st.value.args[0] if st.value.args else None))
            for k in keys:
                if k is None:
                    continue
                stores += 1
                if "call:thread_introns" not in taint.influence(k, env):
                    ctx.fail("N4", st, g._qualname, src(st)[:90], "a candidate path is stored whose intron chain does not come from thread_introns "
                             "(the only place where substituted chains are checked)")
    if stores:
        ctx.ok("N4", "%s:%d" % (GMC, g.lineno), "IntronPathStorage.fill: %d path stores (over all paths), all keyed by the result of thread_introns" % stores)
    ctx.floor("N4", "appends in thread_introns", n, 1)
    ctx.floor("N4", "path stores in IntronPathStorage.fill", stores, 3)


GI = "src/gene_info.py"


def strand_table(prog, ctx, tag):
    """StrandDetector.get_strand / get_clean_strand over all small (forward sites, reverse sites, polyA, polyT) cases, the site counter
    replaced by the case parameters: the answer for the mirrored case is the opposite strand, the splice-site majority decides when there
    is one, a single tail decides a tie."""
    from ..engine import staticeval
    flip = {"+": "-", "-": "+", ".": "."}
    n = 0
    helpers = staticeval.module_helpers(prog)
    for name, with_tails in (("StrandDetector.get_strand", True), ("StrandDetector.get_clean_strand", False)):
        f = prog.func(GI, name)
        stub = None
        for st in walk_no_nested(f):
            if isinstance(st, ast.Assign) and isinstance(st.value, ast.Call) and (call_name(st.value) or "").endswith("count_canonical_sites"):
                stub = src(st.value)
        if stub is None:
            raise AnalysisError("%s: call of count_canonical_sites not found" % name)
        params = [a.arg for a in f.args.args]
        methods = prog.methods_of(prog.cls(GI, "StrandDetector"), inherited=True)

        def run(cf, cr, pa, pt):
            args = []
            for i_, pn in enumerate(params):              # arguments by parameter NAME (the order of the two tail flags may change)
                if i_ < 2:
                    args.append("<self>" if i_ == 0 else "<introns>")
                elif with_tails and "polya" in pn.lower():
                    args.append(pa)
                elif with_tails and "polyt" in pn.lower():
                    args.append(pt)
                else:
                    raise AnalysisError("%s: unexpected parameter %s" % (name, pn))
            if len(args) != (4 if with_tails else 2):
                raise AnalysisError("%s: unexpected signature %s" % (name, params))
            last = None
            # the counter's result: a (forward, reverse) pair, or a table keyed by strand
            for shape_ in ((cf, cr), {"+": cf, "-": cr, ".": 0}):
                try:
                    return staticeval.call_function(f, args, stubs={stub: shape_}, funcs=helpers, methods=methods)
                except (TypeError, KeyError, IndexError, ValueError) as e:
                    last = e
                except staticeval.NoEval as e:
                    raise AnalysisError("%s is not statically evaluable (%s)" % (name, e))
            raise AnalysisError("%s is not statically evaluable (%s)" % (name, last))
        bad = None
        for cf, cr in ((0, 0), (1, 0), (0, 1), (2, 2), (3, 1), (1, 3)):
            for pa in ((False, True) if with_tails else (False,)):
                for pt in ((False, True) if with_tails else (False,)):
                    n += 1
                    got, mir = run(cf, cr, pa, pt), run(cr, cf, pt, pa)
                    case = "forward sites %d, reverse sites %d%s" % (cf, cr, (", polyA %s, polyT %s" % (pa, pt)) if with_tails else "")
                    if got not in flip or mir != flip[got]:
                        bad = bad or (case, "answers %r, but %r for the mirrored case (sites and tails swapped) - expected %r" % (got, mir, flip.get(got)))
                    elif with_tails and cf != cr and got != ("+" if cf > cr else "-"):
                        bad = bad or (case, "answers %r although the splice sites favour %s" % (got, "+" if cf > cr else "-"))
                    elif with_tails and cf == cr and pa != pt and got != ("+" if pa else "-"):
                        bad = bad or (case, "answers %r although the only tail found is %s" % (got, "polyA (+)" if pa else "polyT (-)"))
                    elif not with_tails and got != ("+" if cf > 0 and cr == 0 else ("-" if cr > 0 and cf == 0 else ".")):
                        bad = bad or (case, "answers %r" % got)
        if bad:
            ctx.fail(tag, f, name, bad[0], "%s for %s %s: the model of a transcript on that strand gets no / the wrong strand" % (name, bad[0], bad[1]))
        else:
            ctx.ok(tag, "%s:%d" % (GI, f.lineno), "%s: strand table is mirror-symmetric, majority of sites decides, a single tail decides a tie" % name)
    ctx.floor(tag, "strand cases evaluated", n, 30)


IG = "src/intron_graph.py"


def n7(prog, ctx):
    """Every intron of a novel model is an intron some read has: the vertices of the intron graph (keys of clustered_introns) and the
    substitutes of the correction map are introns collected from the reads.  The annotation may decide WHETHER a read intron is kept
    (`intron in self.known_introns`), it never supplies the intron itself."""
    from ..engine import taint
    cls = prog.cls(IG, "IntronCollector")
    meths = prog.methods_of(cls, inherited=False)
    init = meths.get("__init__")
    annot = {"self.known_introns"}
    for st in (walk_no_nested(init) if init is not None else ()):
        if isinstance(st, ast.Assign) and len(st.targets) == 1 and (dotted(st.targets[0]) or "").startswith("self.") \
                and any((dotted(x) or "") in annot for x in ast.walk(st.value) if isinstance(x, ast.Attribute)):
            annot.add(dotted(st.targets[0]))
    if init is None or not any("known_introns" in src(x) for x in walk_no_nested(init)):
        ctx.undecided("N7", cls, "IntronCollector", "the collector's set of annotated introns (known_introns) not found")
        return
    sources = {a: {"annotation"} for a in annot}
    n = 0
    reported = set()
    for name in sorted(meths):
        if name == "__init__":
            continue
        f = prog.func_inlined(IG, "IntronCollector." + name)
        sites = [st for st in walk_no_nested(f) if isinstance(st, (ast.Assign, ast.AugAssign)) and any(
            isinstance(t, ast.Subscript) and src(t.value) in ("self.clustered_introns", "self.intron_correction_map")
            for t in (st.targets if isinstance(st, ast.Assign) else [st.target]))]
        if not sites:
            continue
        n += len(sites)

        def look(st, env, name=name):
            if not any(st is x for x in sites):
                return
            for t in (st.targets if isinstance(st, ast.Assign) else [st.target]):
                if not isinstance(t, ast.Subscript):
                    continue
                what = []
                if src(t.value) == "self.clustered_introns" and "annotation" in taint.influence(t.slice, env):
                    what.append(("vertex", t.slice))
                if src(t.value) == "self.intron_correction_map" and isinstance(st, ast.Assign) and "annotation" in taint.influence(st.value, env):
                    what.append(("substitute", st.value))
                for kind, e in what:
                    if (st.lineno, kind) in reported:
                        continue
                    reported.add((st.lineno, kind))
                    ctx.fail("N7", st, "IntronCollector." + name, "%s from annotation: %s" % (kind, src(st)[:70]),
                             "the %s %s is taken from the collector's annotated introns, not from the introns collected from reads: a read "
                             "intron can be replaced by an annotated intron that no read has, and the novel model built through it "
                             "contains an intron without read support" % (kind, src(e)[:40]))
        for pth in flow.paths(f):
            taint.run(pth, sources, on_stmt=look)
    if not reported:
        ctx.ok("N7", IG, "%d stores into clustered_introns / intron_correction_map take their intron from read-derived values only" % n)
    ctx.floor("N7", "stores into the intron graph's vertex table / correction map", n, 5)


def n8(prog, ctx):
    """Whether a reported model is a near-duplicate of another one does not depend on where the two happen to stand in the model list: the
    absorbing relation is not symmetric (the model with the longer terminal exons absorbs the shorter one), so every ordered pair has to
    be examined.  In detect_similar_isoforms nothing derived from a model's POSITION in the storage selects the candidates compared with it."""
    from ..engine.dataflow import dependency_roots
    f = prog.func(GMC, "GraphBasedModelConstructor.detect_similar_isoforms")
    storage = next((a.arg for a in f.args.args if a.arg != "self"), None)
    outer = [l for l in walk_no_nested(f) if isinstance(l, ast.For) and not flow.enclosing_loops(l) and storage in {x.id for x in ast.walk(l.iter) if isinstance(x, ast.Name)}]
    if len(outer) != 1:
        ctx.undecided("N8", f, f._qualname, "no single outer loop over the model storage found")
        return
    lp = outer[0]
    pos = set()
    if isinstance(lp.iter, ast.Call) and call_name(lp.iter) == "enumerate" and isinstance(lp.target, ast.Tuple) and isinstance(lp.target.elts[0], ast.Name):
        pos.add(lp.target.elts[0].id)
    if isinstance(lp.iter, ast.Call) and call_name(lp.iter) == "range":
        pos |= {x.id for x in ast.walk(lp.target) if isinstance(x, ast.Name)}
    # counters advanced once per outer iteration
    for st in lp.body:
        if isinstance(st, ast.AugAssign) and isinstance(st.target, ast.Name) and isinstance(st.value, ast.Constant):
            pos.add(st.target.id)
    inner = [l for l in walk_no_nested(lp) if isinstance(l, ast.For) and l is not lp]
    if not inner:
        ctx.undecided("N8", lp, f._qualname, "no inner loop over the candidates found")
        return
    n = 0
    for il in inner:
        n += 1
        exprs = [il.iter] + [g.test for x in walk_no_nested(il) if isinstance(x, ast.Continue) for g in flow.guards_of(x, stop=il)]
        roots = set()
        for e in exprs:
            roots |= {r.split(".")[0] for r in dependency_roots(f, [e], at=il)} | {x.id for x in ast.walk(e) if isinstance(x, ast.Name)}
        used = sorted(roots & pos)
        if used:
            ctx.fail("N8", il, f._qualname, "candidates selected by position: for ... in %s" % src(il.iter)[:60],
                     "which models are compared with a model depends on %s, the model's position in the storage: a pair is then examined in "
                     "one direction only, and of two models with the same intron chain that only differ in their ends the one that "
                     "stands first is never absorbed by the later one - both are reported" % "/".join(used))
        else:
            ctx.ok("N8", "%s:%d" % (GMC, il.lineno), "candidates for a model are selected by their own properties, not by position")
    ctx.floor("N8", "candidate loops of detect_similar_isoforms", n, 1)


def run(prog, ctx):
    ctx.rule("N9", "rule K2 of C18 run for C04: every comparison of reference dinucleotides with the canonical splice-site tables sees them "
                   "upper-cased (a novel model in soft-masked sequence must get the strand of its GT..AG / CT..AC introns, not '.')")
    from . import c18 as _c18
    _c18.k2(prog, ctx, tag="N9")
    ctx.rule("N8", "in detect_similar_isoforms neither the iterable of the inner (candidate) loop nor the tests that skip a candidate depend on "
                   "the outer model's position in the storage (enumerate index, range variable, per-iteration counter)")
    n8(prog, ctx)
    ctx.rule("N7", "in IntronCollector no key stored into clustered_introns and no value stored into intron_correction_map is influenced "
                   "(path-wise propagation, helpers expanded) by known_introns or an attribute derived from it")
    n7(prog, ctx)
    ctx.rule("N1", "for every novel TranscriptModel construction the id suffix and the model type are assigned together and pair "
                   "nic<->novel_in_catalog / nnic<->novel_not_in_catalog; the nic branch is exactly the positive branch of a subset "
                   "test (all/any/set<=/issubset/issuperset idioms) of the model's own intron path against known_introns, whose only "
                   "definition is set(gene_info.intron_profiles.features); mono-exon novel models are nnic")
    ctx.rule("N3", "the path tested against known_isoforms_in_graph is the same intron chain (no terminal vertices) the table is keyed by")
    ctx.rule("N2", "path enumeration of the filter loops: on every path a model is either appended to the output storage or passed "
                   "to delete_from_storage (which deletes its read list, the only source of transcript_model_reads)")
    n1(prog, ctx)
    n2(prog, ctx)
    ctx.rule("N6", "definite strand: finite case analysis of StrandDetector.get_strand / get_clean_strand with the splice-site counter replaced "
                   "by case parameters - the strand for a mirrored case is the opposite one, a majority of canonical sites decides, and with "
                   "no majority a single polyA / polyT tail decides")
    strand_table(prog, ctx, "N6")
    ctx.rule("N5", "the read lists of transcript_model_reads are written for every constructed model, the GTF only for models passing "
                   "validate_exons: the gate must accept every well-formed exon list (finite case analysis of its body, incl. 1-bp exons), "
                   "otherwise transcript_model_reads names a transcript that is not in transcript_models.gtf")
    from . import c03 as _c03
    _c03.validate_predicate(prog, ctx, "N5", "its reads are still listed in transcript_model_reads, which then references a transcript "
                            "absent from transcript_models.gtf")
    ctx.rule("N4", "evidence clause, structural part: IntronPathProcessor.thread_introns appends a substituted intron only under a guard "
                   "that implies (linear form) its start >= previous end + 2, or while the chain is empty; every candidate path stored "
                   "by IntronPathStorage.fill is keyed by the result of thread_introns (influence propagation)")
    n4(prog, ctx)
    ctx.assume("intron support of the individual representative introns, >= 1 supporting read, definite strand and chain uniqueness are runtime/graph-valued and not decided")
