"""isoqlint - repository-specific static checkers for ablab/IsoQuant properties C01-C20.

Pure standard library (ast).  Nothing here imports or executes IsoQuant code.
"""
__all__ = ["engine", "rules"]
