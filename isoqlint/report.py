"""Obligations, findings, known-findings matching, evidence and replay files."""
import json
import os
import re
import time

VERIF = os.path.dirname(os.path.dirname(os.path.abspath(__file__)))


def norm_text(s):
    return re.sub(r"\s+", " ", s or "").strip()


class Finding:
    def __init__(self, prop, rule, module, function, construct, line, message, path=None):
        self.prop = prop
        self.rule = rule
        self.module = module
        self.function = function
        self.construct = norm_text(construct)
        self.line = line
        self.message = message
        self.path = path

    def key(self):
        # never keyed by line number
        return "%s|%s|%s|%s" % (self.rule, self.module, self.function, self.construct)

    def to_json(self):
        return {"property": self.prop, "rule": self.rule, "module": self.module,
                "function": self.function, "construct": self.construct,
                "file_line": "%s:%s" % (self.module, self.line), "message": self.message,
                "path": self.path, "key": self.key()}


class Ctx:
    """Collects what one property check analysed and concluded."""

    def __init__(self, prop, tier="quick", seed=0):
        self.prop = prop
        self.tier = tier
        self.seed = seed
        self.t0 = time.time()
        self.rules = {}          # rule id -> text
        self.obligations = []    # dicts
        self.findings = []
        self.assumptions = []
        self.notes = []
        self.extra = {}
        self.floors = []         # (rule, what, got, floor)
        self.undecideds = []     # (rule, where, function, what)

    # -- recording -------------------------------------------------------
    def rule(self, rid, text):
        self.rules[rid] = norm_text(text)

    def ok(self, rule, where, what, nontrivial=True):
        self.obligations.append({"rule": rule, "where": where, "what": norm_text(what),
                                 "verdict": "holds", "nontrivial": nontrivial})

    def fail(self, rule, node_or_loc, function, construct, message, module=None, line=None, path=None):
        if module is None:
            m = getattr(node_or_loc, "_module", None)
            module = m.rel if m else "?"
            line = getattr(node_or_loc, "lineno", 0)
        f = Finding(self.prop, rule, module, function, construct, line, message, path)
        # de-duplicate by key
        if not any(x.key() == f.key() for x in self.findings):
            self.findings.append(f)
        self.obligations.append({"rule": rule, "where": "%s:%s %s" % (module, line, function),
                                 "what": norm_text(message), "verdict": "VIOLATED", "nontrivial": True})
        return f

    def floor(self, rule, what, got, floor):
        self.floors.append((rule, what, got, floor))

    def undecided(self, rule, node_or_loc, function, what):
        """The construct a rule decides on has a shape the rule does not understand: the rule can neither confirm nor refute the
        property there.  Reported as ANALYSIS-ERROR (exit 2) unless a real violation is reported as well - never as a violation."""
        m = getattr(node_or_loc, "_module", None)
        where = "%s:%s" % (m.rel if m else "?", getattr(node_or_loc, "lineno", 0))
        self.undecideds.append((rule, where, function, norm_text(what)))
        self.obligations.append({"rule": rule, "where": "%s %s" % (where, function), "what": norm_text(what),
                                 "verdict": "undecided", "nontrivial": True})

    def assume(self, text):
        if text not in self.assumptions:
            self.assumptions.append(text)

    def note(self, text):
        self.notes.append(text)


def load_known():
    p = os.path.join(VERIF, "known_findings.json")
    if not os.path.exists(p):
        return []
    with open(p) as f:
        return json.load(f).get("findings", [])


def finish(ctx, prog, out=print):
    """Apply floors, match known findings, write evidence, return exit code."""
    from .engine.program import AnalysisError
    short = [(rule, what, got, floor) for rule, what, got, floor in ctx.floors if got < floor]
    known = [k for k in load_known() if k.get("property") == ctx.prop and k.get("status", "known") == "known"]
    known_keys = {k["key"]: k for k in known}
    unlisted = [f for f in ctx.findings if f.key() not in known_keys]
    if ctx.undecideds and not unlisted:
        rule, where, function, what = ctx.undecideds[0]
        raise AnalysisError("rule %s cannot decide %s (%s): %s" % (rule, function, where, what))
    if short and not unlisted:
        rule, what, got, floor = short[0]
        raise AnalysisError("rule %s matched %d %s, fewer than the %d confirmed by hand on the pinned tree "
                            "(anchor moved or rule went vacuous)" % (rule, got, what, floor))
    for rule, where, function, what in ctx.undecideds:
        out("NOTE property=%s rule %s cannot decide %s (%s): %s" % (ctx.prop, rule, function, where, what))
    for rule, what, got, floor in short:
        # a shortfall next to reported violations: the violations are the verdict, the shortfall is shown with them
        out("NOTE property=%s rule %s matched %d %s (floor %d): the code it anchors on has changed shape" % (ctx.prop, rule, got, what, floor))
    violations = []
    matched_known = []
    for f in ctx.findings:
        k = known_keys.get(f.key())
        if k is not None:
            matched_known.append((f, k))
        else:
            violations.append(f)
    outdir = os.path.join(VERIF, "out", ctx.prop)
    code = 0
    for f, k in matched_known:
        out("KNOWN-FINDING: property=%s %s [%s %s:%s %s]" % (ctx.prop, k.get("what_fails", f.message), f.rule,
                                                          f.module, f.line, f.function))
    dry = bool(os.environ.get("ISOQLINT_NO_EVIDENCE"))
    if violations:
        if not dry:
            os.makedirs(outdir, exist_ok=True)
        for i, f in enumerate(violations):
            rp = os.path.join(outdir, "%d.json" % i)
            if not dry:
                with open(rp, "w") as fh:
                    json.dump(f.to_json(), fh, indent=1)
            out("%s:%s: [%s] %s: %s  <<%s>>" % (f.module, f.line, f.rule, f.function, f.message, f.construct))
            if f.path:
                out("    path: %s" % f.path)
            out("VIOLATION property=%s replay=%s" % (ctx.prop, rp))
        code = 1
    if not dry:
        write_evidence(ctx, prog, violations, matched_known)
    return code


def write_evidence(ctx, prog, violations, matched_known):
    obs = ctx.obligations
    distinct = {(o["rule"], o["where"], o["what"]) for o in obs if o.get("nontrivial")}
    held = [o for o in obs if o["verdict"] == "holds"]
    samples = []
    seen_rules = {}
    for o in obs:
        seen_rules.setdefault(o["rule"], 0)
        if seen_rules[o["rule"]] < 4:
            samples.append(o)
            seen_rules[o["rule"]] += 1
    per_rule = {}
    for o in obs:
        d = per_rule.setdefault(o["rule"], {"obligations": 0, "held": 0})
        d["obligations"] += 1
        d["held"] += 1 if o["verdict"] == "holds" else 0
    explanation = "Static analysis (AST-level, no execution of IsoQuant). Rules applied: " + \
        " || ".join("%s: %s" % (k, v) for k, v in sorted(ctx.rules.items()))
    cov = {
        "explanation": explanation,
        "evaluations": len(obs),
        "distinct_nontrivial": len(distinct),
        "rule": "one evaluation = one rule instance (obligation) derived from /repo's current source; "
                "non-trivial = the rule had a concrete construct to check (not vacuous); distinct by (rule, site, obligation text)",
        "obligations": len(obs),
        "discharged": len(held),
        "samples": samples[:40],
        "per_rule": per_rule,
        "floors": [{"rule": r, "what": w, "matched": g, "floor": fl} for r, w, g, fl in ctx.floors],
        "units_analysed": prog.units_summary() if prog is not None else [],
        "not_in_closure": prog.not_in_closure if prog is not None else [],
        "known_findings_matched": [f.key() for f, _k in matched_known],
        "violations_reported": [f.to_json() for f in violations],
        "notes": ctx.notes,
        "exhaustive": False,
    }
    cov.update(ctx.extra)
    ev = {
        "property_id": ctx.prop,
        "tier": ctx.tier,
        "seed": int(ctx.seed),
        "level": "other",
        "coverage": cov,
        "assumptions": ctx.assumptions,
        "wall_s": round(time.time() - ctx.t0, 3),
        "violations": len(violations),
    }
    os.makedirs(os.path.join(VERIF, "evidence"), exist_ok=True)
    tmp = os.path.join(VERIF, "evidence", ctx.prop + ".json.tmp")
    with open(tmp, "w") as fh:
        json.dump(ev, fh, indent=1, sort_keys=True)
    os.replace(tmp, os.path.join(VERIF, "evidence", ctx.prop + ".json"))
