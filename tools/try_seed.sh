#!/bin/bash
# usage: tools/try_seed.sh <seed-id> [<property>...]   apply a stored seeded change to /repo, run checks without writing evidence, undo
cd "$(dirname "$0")/.."
sid=$1; shift
props=${@:-${sid%%-*}}
git -C /repo apply /verif/seeded/$sid/patch.diff || exit 2
for p in $props; do ISOQLINT_NO_EVIDENCE=1 ./check $p | cut -c1-${W:-300} | head -${N:-4}; done
git -C /repo checkout -- .
