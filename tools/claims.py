# Table of claims; exec'd by gen_manifest.py.  Keep in step with isoqlint.__main__.CLAIMED.
NOT_BUILT = "static check designed in DESIGN.md but not built yet in this tree; not claimed until its rule runs"

claim("C15", "wire-type tree agreement between every serializer/deserializer pair (AST-extracted), codec-pair symmetry, field coverage",
      "Decides the structural part of round-trip losslessness: for every codec pair (5 object formats, the abridged "
      "multimapper reader, stream framing, info/multimapper side files, pickle state, 9 primitive codecs, dict value tags) "
      "the writer and the reader reduce to the same sequence of typed wire operations and field names, and every "
      "constructor field is serialised or provably derived. Does not decide value ranges or the --read_assignments rerun.",
      "DESIGN.md 3/C15 (Z1-Z3)")

claim("C01", "table totality/disjointness over AST-evaluated enum sets + abstract path enumeration of the decision tree",
      "Decides a necessary structural condition of C01: every match event the comparators can emit is classified in exactly one "
      "of consistent/minor/major as docs/formats.md documents its family, is priced, the derived sets are coherent, "
      "classify_assignment tests them in the required order, and every path of assign_to_isoform/match_consistent*/"
      "match_inconsistent ends in a ReadAssignment (None only where re-dispatched). Profile construction, junction "
      "arithmetic and polyA distances are runtime-valued and not decided.",
      "DESIGN.md 3/C01 (E1-E4)")

claim("C11", "left/right table symmetry over AST-evaluated enum sets (typed code-pair reflection X1 in progress)",
      "Decides the reflection clause's table part: every *_left event has a *_right twin in the same classification sets, with "
      "equal cost, mirrored printable names, and alternative_sites is side-symmetric. Translation equivariance and value-level "
      "equivariance are not decided.",
      "DESIGN.md 3/C11 (X2; X1 staged)")

claim("C17", "path-wise symbolic memo check, who-constructs / provenance checks over resolved call sites, key-tuple agreement",
      "Decides: the exon-id memo returns what it stores on hit and miss; every novel transcript/gene id takes its number from the "
      "ExcludingIdDistributor built from the task's own annotation and chromosome, which skips forbidden ids in a loop and parses "
      "them with the formatting constants; all generated ids embed the chromosome; loader and lookup key tuples agree and the "
      "task's printers share one storage. Global uniqueness over arbitrary annotations is not decided.",
      "DESIGN.md 3/C17 (I1-I4)")

for _p in ["C02", "C03", "C04", "C05", "C06", "C07", "C08", "C09", "C10", "C13", "C14", "C16", "C18", "C20"]:
    na(_p, NOT_BUILT)

na("C12", "equality of outputs across .gtf/.gtf.gz/.db, --complete_genedb and BAM partitions is determined by what gffutils "
          "create_db infers and pysam iterators return at run time; the repository adds only glue whose shape does not imply it")
na("C19", "set-theoretic correctness of interval sweeps / binary searches over arbitrary sorted lists is functional correctness over "
          "unbounded runtime values; needs enumeration or a solver (other families); no sound static argument in reach")
