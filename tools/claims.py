# Table of claims; exec'd by gen_manifest.py.  Keep in step with isoqlint.__main__.CLAIMED.
NOT_BUILT = "static check designed in DESIGN.md but not built yet in this tree; not claimed until its rule runs"

claim("C15", "wire-type tree agreement between every serializer/deserializer pair (AST-extracted), codec-pair symmetry, field coverage",
      "Decides the structural part of round-trip losslessness: for every codec pair (5 object formats, the abridged "
      "multimapper reader, stream framing, info/multimapper side files, pickle state, 9 primitive codecs, dict value tags) "
      "the writer and the reader reduce to the same sequence of typed wire operations and field names, and every "
      "constructor field is serialised or provably derived. Does not decide value ranges or the --read_assignments rerun.",
      "DESIGN.md 3/C15 (Z1-Z3)")

claim("C01", "table totality/disjointness over AST-evaluated enum sets + abstract path enumeration of the decision tree",
      "Decides a necessary structural condition of C01: every match event the comparators can emit is classified in exactly one "
      "of consistent/minor/major as docs/formats.md documents its family, is priced, the derived sets are coherent, "
      "classify_assignment tests them in the required order, and every path of assign_to_isoform/match_consistent*/"
      "match_inconsistent ends in a ReadAssignment (None only where re-dispatched). Profile construction, junction "
      "arithmetic and polyA distances are runtime-valued and not decided.",
      "DESIGN.md 3/C01 (E1-E4)")

claim("C11", "typed strand reflection of code: canonical fact multisets in linear normal form for function pairs, left/right blocks, flag specialisations and interval literals; table symmetry",
      "Decides the reflection clause structurally: (X1) for 10 declared function pairs, 6 left/right block pairs and 5 direction-flag "
      "functions the left side, reflected (coordinates negated, interval sides swapped, sequences reversed, index duals, left/right "
      "names dualised) and reduced to a multiset of canonical guards/effects, equals the right side; first/last interval literals "
      "are mirror-symmetric; (X2) every *_left event has a *_right twin in the same classification sets with equal cost and mirrored "
      "names. Translation equivariance and value-level equivariance are not decided.",
      "DESIGN.md 3/C11 (X1-X2)")

claim("C17", "path-wise symbolic memo check, who-constructs / provenance checks over resolved call sites, key-tuple agreement",
      "Decides: the exon-id memo returns what it stores on hit and miss; every novel transcript/gene id takes its number from the "
      "ExcludingIdDistributor built from the task's own annotation and chromosome, which skips forbidden ids in a loop and parses "
      "them with the formatting constants; all generated ids embed the chromosome; loader and lookup key tuples agree and the "
      "task's printers share one storage. Global uniqueness over arbitrary annotations is not decided.",
      "DESIGN.md 3/C17 (I1-I4)")

claim("C09", "path enumeration of sibling implementations + inverse-table agreement (same defining sequence)",
      "Decides: every get_group_id implementation handed out by the factory returns on every path a non-None group that it "
      "registered in the group universe (so an ungroupable read lands under NA instead of aborting); the name->index table and the "
      "index->name list of the grouped counters are built from the same ordered sequence; all increments use the read's own "
      "group id and both renderings read one table. Per-feature sums and triple equality are value-level and not decided.",
      "DESIGN.md 3/C09 (P1-P3)")

claim("C18", "memo-key soundness by intra-procedural data+control dependence cones with reaching definitions; sibling contradiction rule",
      "Decides history-independence of the cached flags structurally: for every lookup-or-compute memo held in an object attribute "
      "(canonical_sites, strand_dict, gene_regions, scores, ...) the dependence cone of the stored value is covered by the key, "
      "the owner object (whose consulted attributes are only set in constructors or together with a memo reset) and run constants; "
      "all dinucleotide comparisons normalise case like get_intron_strand. Agreement of model strand with evidence is not decided.",
      "DESIGN.md 3/C18 (K1-K2)")

claim("C20", "effect summaries (in-place write / atomic publish / tolerant read) of every function on the shared cache paths, through helpers",
      "Decides the half-written-cache clause structurally: every write of a $HOME/.config/IsoQuant/*.json path in the import closure "
      "is an os.replace publish of a temp sibling, every json.load of one is inside handlers for missing/undecodable files, and no "
      "exists()-guarded in-place creation remains. Lost updates and the mtime validation of cache entries are not decided.",
      "DESIGN.md 3/C20 (A1-A3)")

claim("C02", "path enumeration with a one-variable interval domain; loop/weight pairing rule; truth-table implication over opaque atoms",
      "Decides the weighting discipline structurally: per-read weight is 0, 1 or 1/k, 1 only when k<=1, 1/k only under the documented "
      "strategy flags (flag table == docs/cmd.md); 1.0 is added once under a single-feature guard and 1/len(S) exactly once per "
      "element of a loop over the same S (total contribution <= 1 per table); unique+spliced always confirms and only unconfirmed "
      "features are zeroed. Equality of printed sums, rounding, TPM and merging are value-level and not decided.",
      "DESIGN.md 3/C02 (W1-W3)")

claim("C13", "feature-kind tag agreement at every hand-over site (AST), value-mapping table of the counter",
      "Decides index-space agreement: a profile vector and the feature table indexed with it come from the same feature list "
      "(exon/intron/split-exon) through constructor wiring, combined-profile fields, assignment fields, property maps and counters; "
      "the feature table has one entry per feature in order; profile value 1 feeds only inclusion, -1 only exclusion, same index. "
      "Whether profile values are right is not decided.",
      "DESIGN.md 3/C13 (F1-F2)")

claim("C16", "abstract evaluation of the CIGAR walkers per op and block state against the SAM consumption table",
      "Decides: for each of the 9 CIGAR ops and both block states the query/reference cursor increments of get_read_blocks and "
      "move_ref_coord equal the SAM table; only N and S (always) close a block, M/=/X/I/D open one; blocks are recorded in the three "
      "parallel lists together under has_match; polyA/T trimming cuts the three lists with one slice after shifting the tail "
      "position. Block boundaries for every CIGAR string are not decided.",
      "DESIGN.md 3/C16 (Q1-Q2)")

claim("C03", "guard-dominance (must-pass-through) on the print gate, who-constructs check, call-site guard check for in-place mutators",
      "Decides: a model reaches transcript_models/extended GTF only after validate_exons passed (registry of validated indices is the "
      "only route to a write; nothing else writes the handle); `known` models are created only by the copy constructor from the "
      "annotation's own exons/strand/gene/id; the extended storage adds every reference isoform and every dumped novel model "
      "unfiltered; every in-place mutation of exon_blocks/strand is control-dependent on transcript_type != known locally or at all "
      "call sites. Sortedness/bounds of novel exons and uniqueness are value-level and not decided.",
      "DESIGN.md 3/C03 (G1-G3)")

claim("C04", "branch pairing + recognised subset-test idioms + single-definition check; path enumeration of filter loops (drop => forget)",
      "Decides: .nic/novel_in_catalog is assigned exactly in the positive branch of an 'every intron of the model's own path is in "
      "known_introns' test, known_introns being only set(annotation introns); .nnic otherwise and for mono-exon novel models; on "
      "every path of both filter passes a model is either kept or passed to delete_from_storage, which removes the read list that "
      "transcript_model_reads is printed from. Intron support, strand definiteness and chain uniqueness are not decided.",
      "DESIGN.md 3/C04 (N1-N2)")

claim("C08", "predicate-derived priority classes, path enumeration of the loading gate, guard dominance in evidence loops, sibling constructor agreement",
      "Decides: the return chain of select_best_assignment is a linear extension of the documented priority order (classes derived "
      "from the guards of each list); every resolution branch marks losers suspended in the field the single stage-2 loading gate "
      "tests, and the gate forwards a multimapper only if resolved and not suspended; graph-evidence loops skip multimappers before "
      "any state write; the high-memory and default constructors of the compact record define the same fields from the same "
      "sources. Order-independence of tie-breaking is not decided.",
      "DESIGN.md 3/C08 (M1-M4)")

claim("C14", "origin taint + control dependence on strategy flags (with two re-verified data-carried guard idioms); linear normal forms for BED12",
      "Decides: every statement through which an annotation-origin coordinate or a changed read region reaches the corrected "
      "alignment is dominated by a correct_* flag (so preset none, all False, yields the input alignment); corrected sites are the "
      "read's or the same-index annotated intron's site of the same side; left/right events change only their end; BED12 columns "
      "satisfy chromStart=E0-1, chromEnd=Elast, size=e1-e0+1, start=e0-E0, count=len. Block ordering/positivity is not decided.",
      "DESIGN.md 3/C14 (B1-B3)")

claim("C05", "drop-site inventory with a documented filter vocabulary over guard atoms; sibling agreement; loop-exit and partition checks; "
      "path-wise symbolic tiling proof of the region splitter in linear normal form; sign check of the index-slice bin offsets",
      "Decides the 'who may drop a read' half: along the whole read path every continue/return/break before a read is forwarded is "
      "controlled only by documented filter atoms (unmapped, supplementary, secondary policy, MAPQ cut-offs, no exons, multimap "
      "verdict, None guards) and forwarding is unconditional; genic/intergenic pre-filters agree; every split region is processed "
      "and the last one flushed; the statistics chain is a partition; storage reset() is complete. Region cutting: on every syntactic "
      "path of split_coverage_regions (and across two consecutive loop iterations) each appended sub-region starts no later than one past "
      "the covered prefix and the returned list reaches the cluster end or is the whole cluster (D6); the in-memory storage's candidate "
      "slice [end_index[bin(r0)+a], start_index[bin(r1)+b]) has a <= 0 and 1 <= b <= fill bound, candidates are yielded iff they overlap the "
      "closed region, the BAM sibling fetches [r0, r1+1) (D7). Where the valleys fall, duplicate suppression and count equality are value-level "
      "and not decided.",
      "DESIGN.md 3/C05 (D1-D4), 11.1 (D5-D7)")

claim("C07", "typestate over marker files: derived file-owning classes, dominance of close() over marker creation, invalidate-before-consume, atomic-publish",
      "Decides the resume protocol structurally: every writer alive in a marker-creating function is explicitly closed before the "
      "marker (file-owning classes derived from constructors, each with a complete close(), no data written in __del__); markers "
      "are removed before the artefacts they attest are merged/deleted; exists()-based resume decisions test markers or atomically "
      "published files; nothing is written after a marker. Byte equality of recomputed outputs is not decided.",
      "DESIGN.md 3/C07 (R1-R4)")

claim("C10", "loop-carried dependence analysis: linearised access sequences of driver-object locations, class-level / module-level state census",
      "Decides independence structurally: over `for sample in samples: process_sample(sample)` every DatasetProcessor / shared-args "
      "location modified in an iteration is plainly and unconditionally written before any use in that iteration; every class-level "
      "or module-level mutable location that is modified is re-initialised per chromosome task / experiment or is in the benign "
      "table with a reason (3 opaque counters). Equality with stand-alone runs and combined_* tables are not decided.",
      "DESIGN.md 3/C10 (S1)")

claim("C06", "inter-procedural order-taint from possibly-str sets to observable sinks with re-verified triage; ordered fan-in checks; per-task state census",
      "Decides three structural routes by which hash seed or schedule can reach outputs: (O1) hash-dependent order propagated from "
      "sets with possibly-str elements through lists, dict insertion order, returns, parameters and attributes never reaches a "
      "write/join/serialisation, positional selection, enumerate, first-match exit, id allocation or list comparison without an "
      "order-free operation (7 triaged benign sinks with re-verified side conditions); (O2) pool results consumed via map() only, "
      "parts merged in sorted order; (O3) no modified class-/module-level state survives a chromosome task. Byte identity, float "
      "summation order and the read-mapping stage (hash(str) BAM names) are not decided.",
      "DESIGN.md 3/C06 (O1-O3)")

na("C12", "equality of outputs across .gtf/.gtf.gz/.db, --complete_genedb and BAM partitions is determined by what gffutils "
          "create_db infers and pysam iterators return at run time; the repository adds only glue whose shape does not imply it")
na("C19", "set-theoretic correctness of interval sweeps / binary searches over arbitrary sorted lists is functional correctness over "
          "unbounded runtime values; needs enumeration or a solver (other families); no sound static argument in reach")


# Rules added after the seeding rounds (DESIGN.md 11.1 / 11.4): what they add to the decided part of each claim.
LATER = {
    "C01": ("Later rules: tolerances are consumed in their own roles (E6), the polyA/polyT twins are mirror images (E7), the matching presets form "
            "a chain of non-decreasing tolerances with the documented delta (E8), the tail search runs for every alignment (E9).", "E5-E9"),
    "C02": ("Later rules: counter cell type and strategy wiring (W4, W5), the __not_aligned number is the experiment's own (W6), and the site that "
            "types a record ambiguous must agree with the weight's divisor (W7 - a genuine defect, recorded as a known finding), get_features returns distinct features (W8), per-chromosome statistics are added (W9), the type dispatch of add_read_info over all assignment types (W10).", "W4-W10"),
    "C03": ("Later rules: strand-gated gene merging (G4), every reference transcript is registered once per chromosome (G5), the extended "
            "annotation is built whenever the run options ask for it (G6), the print gate accepts exactly the well-formed exon lists, the registry of printed gene ids never shrinks (G7), an annotated gene is never the one merged away (G8), reserved ids of the annotation are always scanned (G9), reference exon lists are stored untransformed (G10), second-stage tasks cover the whole reference (G11).", "G4-G11"),
    "C04": ("Later rules: the known-chain lookup uses the chain the table is keyed by (N3), substituted intron chains keep an exon between "
            "neighbouring introns (N4), the print gate cannot drop a model whose reads are listed (N5), the strand decision table (N6), no graph vertex comes from the annotation (N7), duplicate detection is position-independent (N8), splice sites are compared upper-cased (N9).", "N3-N9"),
    "C05": ("Later rules: storage reset, tiling proof of the region splitter and index-slice bounds (D5-D7), hash/eq contract, de-duplicating "
            "strategy (D8, D9), per-experiment statistics (D10), one container entry per record (D11).", "D5-D11"),
    "C06": ("Later rules: pickled hand-over between worker and parent (O4), append-mode files are truncated by their owner (O5), the compact and the full record agree field by field in both memory modes (O6), per-process object numbers are never ordered (O7).", "O4-O7"),
    "C07": ("Later rules: state of a skipped stage is restored (R5), no mutation between dump and marker (R6), append files truncated (R7), stale "
            "markers removed before a new run identity is published (R8), save/restore agreement of the collection stage (R9), no marker is opened around the work it vouches for (R10).", "R5-R10"),
    "C08": ("Later rules: pickle state of the compact records (M5), the multimapper flag is the secondary flag of the record's own alignment (M6), guard vocabulary of the statement that files a record under its read id (M7), one container entry per record (M8), resolve() returns its input only for <= 1 record or after suspending all (M9).", "M5-M9"),
    "C09": ("Later rules: rendering flags only render (P4), no stale loop variable (P5), split of the read-group table (P6), file provenance of a "
            "read (P7), groups of a reused chromosome restored (P8), the file:FILE:READ_COL:GROUP_COL:DELIM parser agrees with docs/cmd.md field by field (P9), a fresh grouper per chromosome task (P10), label-table keys and look-up keys agree (P11).", "P4-P11"),
    "C10": ("Later rules: experiment enumeration parsers (S2), groupers read their own experiment's labels only (S3), the returned experiment names are the looked-up ones (S4); "
            "cross-cutting U3 (ignored argument).", "S2-S4, U3"),
    "C11": ("Later rules: the -1 sentinel never enters coordinate arithmetic (X3), strand decision table (X4), offsets of the reported tail "
            "positions (X5 - a genuine 2-bp asymmetry, recorded as a known finding), twin constant tables (X6), no early exit on feature ends in start-sorted lists (X7).", "X3-X7"),
    "C13": ("Later rules: dump completeness, spanned windows, presence tests (F3-F5), row attributes aggregated over all isoforms (F6), every "
            "profile comes from its constructor call (F7), profile assignments depend on run options only (F8), ExonCounter / IntronCounter twins (F9, F10).", "F3-F10"),
    "C14": ("Later rules: one index space in match_genomic_features (B4), the read span after trimming (B5), containment guard for inserted "
            "introns (B6), ordered replacement pair in the short-read corrector (B7); cross-cutting U4 (options are defaulted, never overwritten) and U5 (preset fields wired to the options of the same name), the chain of process_events is handed on unchanged or sorted (B8).", "B4-B8, U4, U5"),
    "C15": ("Later rules: derivation order in GeneInfo.deserialize (Z4), state of the skipped stage rebuilt on --read_assignments (Z5), optional "
            "segments are lossless (Z6), the reused save files are never deleted (Z7), no swallowed exception around a record write (Z8), compact record = full record (Z9), appended streams are truncated by their module (Z10).", "Z4-Z10"),
    "C16": ("Later rules: trimming as a slice-chain simulation with an all-exons guard decided in linear form (Q2), start of the walk (Q3), "
            "who-may-call for the legacy walkers (Q4), mirror pairs of the trimming helpers (Q5), block lists come from the walker or a slice of themselves (Q6).", "Q2-Q6"),
    "C17": ("Later rules: no process-wide id state (I5), the preload of reference exon ids is exhaustive (I6), both annotation scans always run (I7), per-call id caches are keyed by all they depend on (I8).", "I5-I8"),
    "C18": ("Later rules: owner attributes and window setters (K3, K4).", "K3-K4"),
    "C20": ("Later rules: creation of the shared directory tolerates a concurrent creator (A4), only artefacts produced by this run are "
            "registered (A5), mtime comparisons are exact (A6), the validity test is given the run's own database path (A7), private names under the temporary directory (A8), no deletion of files found by listing the shared directory (A9), registered alignments are indexed (A10).", "A4-A10"),
}
for _pid, (_txt, _rules) in LATER.items():
    if _pid in CLAIMS:
        _t, _x, _r = CLAIMS[_pid]
        CLAIMS[_pid] = (_t, _x + " " + _txt + " Cross-cutting U6 (numeric options are not read through `or`) and U7 (no unaccounted process-wide state in the anchor modules) run for every property. A shape a rule does not understand yields ANALYSIS-ERROR (exit 2), never a violation.",
                        _r + "; 11.1, 11.4 (" + _rules + ")")
