# Table of claims; exec'd by gen_manifest.py.  Keep in step with isoqlint.__main__.CLAIMED.
NOT_BUILT = "static check designed in DESIGN.md but not built yet in this tree; not claimed until its rule runs"

claim("C15", "wire-type tree agreement between every serializer/deserializer pair (AST-extracted), codec-pair symmetry, field coverage",
      "Decides the structural part of round-trip losslessness: for every codec pair (5 object formats, the abridged "
      "multimapper reader, stream framing, info/multimapper side files, pickle state, 9 primitive codecs, dict value tags) "
      "the writer and the reader reduce to the same sequence of typed wire operations and field names, and every "
      "constructor field is serialised or provably derived. Does not decide value ranges or the --read_assignments rerun.",
      "DESIGN.md 3/C15 (Z1-Z3)")

for _p in ["C01", "C02", "C03", "C04", "C05", "C06", "C07", "C08", "C09", "C10", "C11", "C13", "C14", "C16", "C17", "C18", "C20"]:
    na(_p, NOT_BUILT)

na("C12", "equality of outputs across .gtf/.gtf.gz/.db, --complete_genedb and BAM partitions is determined by what gffutils "
          "create_db infers and pysam iterators return at run time; the repository adds only glue whose shape does not imply it")
na("C19", "set-theoretic correctness of interval sweeps / binary searches over arbitrary sorted lists is functional correctness over "
          "unbounded runtime values; needs enumeration or a solver (other families); no sound static argument in reach")
