#!/usr/bin/env python3
"""Re-run every check on every stored seed, 16 at a time, on scratch worktrees (never touches /repo's working tree).

usage: recheck_parallel.py [--breaking|--refactorings] [ids or property ids...]
  breaking seeds    (<PID>-<n>):  meta.checks_that_fire / caught_by_own_property_check / caught_by are refreshed
  refactoring seeds (<PID>-r<n>): meta.checks_not_silent is refreshed (must stay empty)
A patch that no longer applies to /repo HEAD is reported as STALE (rebase it by hand).
"""
import json, os, re, subprocess, sys
from concurrent.futures import ThreadPoolExecutor
VERIF = os.path.dirname(os.path.dirname(os.path.abspath(__file__)))
CLAIMED = ["C01","C02","C03","C04","C05","C06","C07","C08","C09","C10","C11","C13","C14","C15","C16","C17","C18","C20"]
args = sys.argv[1:]
kinds = {"--breaking": "b", "--refactorings": "r"}
want = {kinds[a] for a in args if a in kinds} or {"b", "r"}
only = [a for a in args if a not in kinds]
base = os.path.join(VERIF, "seeded")


def work(d):
    wt = "/tmp/rc_%s_%d" % (d, os.getpid())
    diff = os.path.join(base, d, "patch.diff")
    subprocess.run(["git", "-C", "/repo", "worktree", "add", "-q", "--detach", wt, "HEAD"], capture_output=True)
    try:
        r = subprocess.run(["git", "-C", wt, "apply", diff], capture_output=True, text=True)
        if r.returncode != 0:
            return d, None, "STALE: " + r.stderr.strip()[-200:]
        res = {}
        for c in CLAIMED:
            r = subprocess.run(["./check", c], cwd=VERIF, capture_output=True, text=True, timeout=900,
                               env=dict(os.environ, ISOQLINT_NO_EVIDENCE="1", ISOQLINT_REPO=wt))
            res[c] = {"exit": r.returncode, "rules": sorted(set(re.findall(r"\[([A-Z]\d+)\]", r.stdout))),
                      "first": [l[:300] for l in r.stdout.splitlines() if re.search(r"\[[A-Z]\d+\]", l) or "ANALYSIS" in l][:3]}
        return d, res, None
    finally:
        subprocess.run(["git", "-C", "/repo", "worktree", "remove", "--force", wt], capture_output=True)


todo = []
for d in sorted(os.listdir(base)):
    if not os.path.exists(os.path.join(base, d, "patch.diff")) or not os.path.exists(os.path.join(base, d, "meta.json")):
        continue
    kind = "r" if re.search(r"-r\d+$", d) else "b"
    if kind not in want or (only and d not in only and d.split("-")[0] not in only):
        continue
    todo.append(d)
bad = 0
with ThreadPoolExecutor(max_workers=14) as ex:
    for d, res, err in ex.map(work, todo):
        mp = os.path.join(base, d, "meta.json")
        meta = json.load(open(mp))
        if err:
            print(d, err, flush=True)
            bad += 1
            continue
        pid = d.split("-")[0]
        if re.search(r"-r\d+$", d):
            ns = {c: v for c, v in res.items() if v["exit"] != 0}
            meta["checks_not_silent"] = ns
            bad += bool(ns)
            print(d, ("ALARMS=%s" % {k: (v["exit"], v["rules"]) for k, v in ns.items()}) if ns else "silent", flush=True)
        else:
            fire = {c: {"exit": v["exit"], "rules": v["rules"], "first": v["first"]} for c, v in res.items() if v["exit"] != 0}
            meta["checks_that_fire"] = fire
            meta["caught_by_own_property_check"] = res[pid]["exit"] == 1
            meta["caught_by"] = sorted(c for c, v in res.items() if v["exit"] == 1)
            err2 = sorted(c for c, v in res.items() if v["exit"] not in (0, 1))
            if not meta["caught_by_own_property_check"]:
                bad += 1
            print(d, "own=%s" % meta["caught_by_own_property_check"], "any=%s" % meta["caught_by"], ("exit2=%s" % err2) if err2 else "", flush=True)
        json.dump(meta, open(mp, "w"), indent=1)
print("not as expected:", bad)
