#!/usr/bin/env python3
"""Apply every stored behaviour-preserving refactoring (seeded/*-r*/patch.diff) to /repo, run every check, undo; refresh meta.json.
A check that is not silent on a refactoring is a false alarm (exit 1) or a lost anchor (exit 2)."""
import json, os, re, subprocess, sys
VERIF = os.path.dirname(os.path.dirname(os.path.abspath(__file__)))
CLAIMED = ["C01","C02","C03","C04","C05","C06","C07","C08","C09","C10","C11","C13","C14","C15","C16","C17","C18","C20"]
only = sys.argv[1:]
base = os.path.join(VERIF, "seeded")
bad = 0
for d in sorted(os.listdir(base)):
    if not re.search(r"-r\d+$", d) or (only and d not in only and d.split("-")[0] not in only):
        continue
    mp = os.path.join(base, d, "meta.json")
    meta = json.load(open(mp))
    diff = os.path.join(base, d, "patch.diff")
    if subprocess.run(["git", "-C", "/repo", "apply", "--check", diff], capture_output=True).returncode != 0:
        print(d, "does not apply to /repo HEAD"); continue
    subprocess.run(["git", "-C", "/repo", "apply", diff])
    checks = {}
    try:
        for c in CLAIMED:
            r = subprocess.run(["./check", c], cwd=VERIF, capture_output=True, text=True, env=dict(os.environ, ISOQLINT_NO_EVIDENCE="1"), timeout=600)
            if r.returncode != 0:
                checks[c] = {"exit": r.returncode, "rules": sorted(set(re.findall(r"\[([A-Z]\d)\]", r.stdout))),
                             "first": [l[:300] for l in r.stdout.splitlines() if "[" in l or "ANALYSIS" in l][:3]}
    finally:
        subprocess.run(["git", "-C", "/repo", "checkout", "--", "."])
    meta["checks_not_silent"] = checks
    json.dump(meta, open(mp, "w"), indent=1)
    bad += bool(checks)
    print(d, ("ALARMS=%s" % {k: (v["exit"], v["rules"]) for k, v in checks.items()}) if checks else "silent", flush=True)
print("refactorings with a non-silent check:", bad)
