#!/bin/sh
# run every claimed quick check; print one line each; exit non-zero if any does
cd "$(dirname "$0")/.." || exit 2
rc=0
for p in C01 C02 C03 C04 C05 C06 C07 C08 C09 C10 C11 C13 C14 C15 C16 C17 C18 C20; do
  ./check $p "$@" > /tmp/.isoq_$p.out 2>&1; c=$?
  tail -1 /tmp/.isoq_$p.out
  [ $c -ne 0 ] && { rc=1; grep -E "VIOLATION|ANALYSIS-ERROR" /tmp/.isoq_$p.out | head -3; }
done
exit $rc
