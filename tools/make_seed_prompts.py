#!/usr/bin/env python3
"""Create scratch worktrees and prompt files for a round of sub-agents (nothing from /verif's checkers goes into a prompt).

usage: make_seed_prompts.py <round-number> break|refactor
  worktrees: /tmp/seed<round>_<PID>   prompts: /tmp/seed<round>_prompt_<PID>.txt
For `break` rounds the prompt lists the functions earlier seeded changes already touched (taken from the stored patches' hunk
headers) so that the new changes land elsewhere.
"""
import json, os, re, subprocess, sys
VERIF = os.path.dirname(os.path.dirname(os.path.abspath(__file__)))
CLAIMED = ["C01","C02","C03","C04","C05","C06","C07","C08","C09","C10","C11","C13","C14","C15","C16","C17","C18","C20"]
rnd, mode = sys.argv[1], sys.argv[2]
props = {json.loads(l)["id"]: json.loads(l) for l in open(os.path.join(VERIF, "properties.jsonl")) if l.strip()}


def touched(pid):
    out = set()
    base = os.path.join(VERIF, "seeded")
    for d in os.listdir(base):
        if d.startswith(pid + "-") and not re.search(r"-r\d+$", d):
            try:
                for l in open(os.path.join(base, d, "patch.diff")):
                    m = re.match(r"^@@ .* @@\s*def\s+(\w+)", l) or re.match(r"^[ +-]\s*def\s+(\w+)", l)
                    if m:
                        out.add(m.group(1))
            except OSError:
                pass
    return sorted(out)


CATEGORIES_4 = """  * change 1: a *substitution* - something is still done, but with the wrong thing: another variable / attribute / table / key / index /
    boundary / comparison / order of operations, introduced while "simplifying" or "speeding up" code;
  * change 2: an *omission* - something stops being done on some path: an update, a reset, a flush/close, a registration, a check,
    a branch of a case distinction, typically on a path that ordinary runs rarely take.
"""
CATEGORIES_6 = """  * change 1: a *weakened safeguard* - a guard condition is relaxed or inverted on one side, an early exit / `continue` / default is
    added "for robustness", an exception is swallowed, a validation is moved after the point where it matters, a clamp (min/max) is
    dropped, a tolerance is applied on the wrong side;
  * change 2: a *wrong table entry or wiring* - a constant, a dictionary / preset / dispatch-table entry, a default argument, a format
    string, a key function, or the arguments of ONE call site (not the callee) are wrong: two values of the same type swapped, a sibling
    constant used, an index shifted by one, a flag passed for another flag.
Do not use `git stash` (the stash is shared between worktrees); to get back to the clean tree use `git checkout -- .`.
"""
CATEGORIES_8 = """  * change 1: a *plausible optimisation* - a result is cached / memoised / hoisted out of a loop, work is skipped on a fast path, state
    is shared or reused between objects, tasks, chromosomes or experiments instead of being rebuilt, a copy is replaced by an alias, an
    eager computation is made lazy (or the reverse), a container type is changed for speed - and the optimisation is valid for ordinary
    inputs but not for all that the property quantifies over;
  * change 2: a *small feature or robustness addition* - support for a new case (an extra option value, file form, record kind, an
    optional field), a new early return / fallback / default, extra logging or statistics, a retry, a compatibility shim - whose new code
    path or changed shared code breaks the property in some situation while the old behaviour looks unchanged on ordinary runs.
Both changes ADD or RESTRUCTURE code (roughly 5-30 changed lines); neither is a one-token edit of an existing comparison or constant.
Do not use `git stash` (the stash is shared between worktrees); to get back to the clean tree use `git checkout -- .`.
"""
FOCUS_11 = {
    "C02": "AssignedFeatureCounter.add_read_info (the if/elif chain on the assignment type), GeneAssignmentExtractor / TranscriptAssignmentExtractor.get_features, file_utils.merge_counts",
    "C03": "DatasetProcessor.get_chr_list and process_assigned_reads, GeneInfo.set_introns_and_exons, TranscriptToGeneJoiner.join_transcripts / merge_genes, transcript_printer.create_extended_storage",
    "C05": "InMemoryAlignmentStorage.fill_index / get_alignments / add_alignment, collect_reads_in_parallel (the list of processed reads), MultimapResolver.find_duplicates",
    "C08": "DatasetProcessor.resolve_multimappers (filing the resolver's output per chromosome and writing it), MultimapResolver.resolve, prepare_multimapper_dict",
    "C09": "FileNameGrouper.__init__ / get_group_id, create_read_grouper, get_file_grouping_properties / load_table, AssignedFeatureCounter.__init__ / dump_grouped",
    "C13": "ExonCounter.add_read_info / IntronCounter.add_read_info, ProfileFeatureCounter.add_read_info_from_profile / dump, CombinedProfileConstructor.__init__",
    "C15": "NormalTmpFileAssignmentLoader.get_object / QuickTmpFileAssignmentLoader.get_object, DatasetProcessor.resolve_multimappers and load of the *_multimappers_* files, serialization.write_int_neg / read_int_neg / write_string_or_none",
    "C20": "read_mapper.find_stored_index / find_stored_bed / find_stored_alignment / store_alignment / align_fasta / map_reads, gtf2db.convert_db / compare_stored_gtf / find_converted_db, isoquant.set_configs_directory",
}
CATEGORIES_10 = """  * change 1: an INCORRECT optimisation that looks exactly like a correct one - a cache / memo keyed by almost everything the value
    depends on (one input missing: strand, chromosome, an option, the object it belongs to), or living slightly too long (per object
    where per call is needed, per process where per object is needed, surviving a reset), a fast path whose condition is almost but not
    quite sufficient for the general path to give the same result, a value hoisted out of a loop that is not invariant in it, a memo of
    something "constant" that one rarely used code path does change;
  * change 2: an INCORRECT helper extraction or generalisation that looks exactly like a correct one - a shared helper (creating /
    removing a marker file, a key or formatting function, a small codec, a lookup) introduced for several call sites one of which
    needed something slightly different (another order of operations, one more argument, the un-normalised value), a new defaulted
    parameter whose default is right for all callers but one, a literal table replaced by a generated one that differs in one entry, an
    explicit open/close pair turned into a context manager that closes (or flushes) at a different moment than a reader relies on.
Both changes must look like careful, well-commented maintenance work (5-40 changed lines) and ordinary toy-data runs must look normal.
Do not use `git stash` (the stash is shared between worktrees); to get back to the clean tree use `git checkout -- .`.
"""
for pid in CLAIMED:
    wt = "/tmp/seed%s_%s" % (rnd, pid)
    if not os.path.exists(wt):
        subprocess.run(["git", "-C", "/repo", "worktree", "add", "-q", "--detach", wt, "HEAD"], check=True)
    os.makedirs(wt + "/seed_out", exist_ok=True)
    p = props[pid]
    json.dump(p, open(wt + "/seed_out/PROPERTY.json", "w"), indent=1)
    head = f"""You are helping to evaluate a code-review tool for the Python project ablab/IsoQuant (a long-read RNA-seq pipeline).
Your own scratch git worktree of the project is {wt} (work ONLY there; never touch /repo or any other directory except /tmp scratch
space of your own, e.g. /tmp/seed{rnd}_{pid}_scratch; do not commit anything). The project's Python is /venv/bin/python. The test suite is
  cd {wt} && /venv/bin/python -m pytest -q -p no:cacheprovider --timeout=900 --continue-on-collection-errors
and on the unmodified tree gives "9 failed, 386 passed" (the 9 console tests fail for an unrelated reason: they call a bare `python`).
The pipeline runs on toy data in about 3 s:
  cd {wt} && HOME=/tmp/seed{rnd}_{pid}_scratch/home /venv/bin/python isoquant.py --data_type nanopore --bam tests/simple_data/chr9.4M.ont.sim.polya.bam \\
      --genedb tests/simple_data/chr9.4M.gtf.gz --complete_genedb -r tests/simple_data/chr9.4M.fa.gz -o /tmp/seed{rnd}_{pid}_scratch/out --prefix P -t 1
(it writes *.fai/*.gzi files into tests/simple_data - delete them afterwards; pysam and gffutils are available for building inputs).

The project is supposed to satisfy this semantic property (also in {wt}/seed_out/PROPERTY.json, which names the code it is anchored in):

ID: {pid}
TITLE: {p['title']}
STATEMENT: {p['statement']}
QUANTIFIED OVER: {p['quantifier']['text']}
ANCHORS (files / mechanisms): {json.dumps(p['anchors']['files'])} ; {json.dumps([m['where'] for m in p['anchors']['mechanism']])}
"""
    if mode == "break":
        body = f"""
YOUR TASK: produce TWO independent changes to the project, each of which BREAKS this property while the project still compiles and the
test suite still gives exactly "9 failed, 386 passed". They model realistic maintenance mistakes, not sabotage: each should read like a
plausible commit (an optimisation, a modernised idiom, a clean-up, support for a new case) whose author did not notice the consequence.
""" + (CATEGORIES_10 if int(rnd) >= 10 else CATEGORIES_8 if int(rnd) >= 8 else CATEGORIES_6 if int(rnd) >= 6 else CATEGORIES_4) + f"""
Earlier changes already exist in these functions, so put yours ELSEWHERE (other functions, other mechanisms of the property): {', '.join(touched(pid)) or '(none)'}.
Each change should be small (1-25 changed lines), and should need something specific to show: a particular input shape, option,
number of threads/experiments, kill point, or sequence of runs - ordinary toy-data runs should look normal.

For each change i = 1, 2:
  1. make the edit in {wt}; run the test suite: it must give exactly "9 failed, 386 passed";
  2. write a demonstration {wt}/seed_out/demo<i>.py, called as `/venv/bin/python demo<i>.py <repo-root>`, that drives the REAL code of the tree
     given as argument (the pipeline, or the relevant functions/classes with real objects) on inputs it builds itself, checks the property,
     prints what it found, and exits 1 if the property is violated and 0 if it holds. It must exit 1 on the changed tree and 0 on the
     unmodified tree, must not depend on the current directory, must put its temporary files under a fresh temp dir and delete them;
  3. save `git diff` as {wt}/seed_out/change<i>.diff, and a short {wt}/seed_out/note<i>.txt: which file/function, what kind of mistake,
     what it needs to manifest, what the demo shows;
  4. `git checkout -- .` and check that the demo now exits 0 (each diff must apply to the unmodified tree on its own).
If the unmodified tree already violates the property in the situation you target, pick another situation (and mention what you saw in the
note). At the end the worktree must have no tracked modifications. Report in a few lines what the two changes are.
"""
    elif int(rnd) >= 9:
        FOCUS = ""
        if int(rnd) >= 11 and pid in FOCUS_11:
            FOCUS = "\nThis time work in (or directly around) these functions: " + FOCUS_11[pid] + "."
        body = f"""
YOUR TASK: produce THREE *behaviour-preserving additions* to the code this property is anchored in - changes a careful maintainer could
make, after which the property STILL HOLDS and the program computes exactly the same results for every input. They are used to find out
whether a checker raises false alarms on correct code, so they must be genuinely correct. This time they ADD code rather than rearrange
it - each of a different kind from this list:
  - a CORRECT optimisation: a cache / memo that is keyed by everything the cached value depends on and lives exactly as long as it is
    valid (per object, per call, per chromosome task), a fast path that is taken only when it provably gives the same result as the
    general path, a value hoisted out of a loop, a cheaper container where multiplicity and order do not matter, lazy evaluation;
  - a CORRECT robustness / feature addition that leaves every existing behaviour unchanged: an extra validation that only fires on
    input the program rejected anyway, a defensive check with a clear error message, an additional hidden option whose default reproduces
    the current behaviour exactly (and which the demo does not set), extra debug logging or counters that are not written to any output
    file, a helper that several call sites now share;
  - a CORRECT generalisation: a function gains a parameter with a default that all existing callers rely on, a constant becomes a
    named class attribute, a literal table is built from a loop that produces the identical table, a context manager replaces an
    explicit open/close pair.
Put the additions where the property's mechanisms live (the functions named in the anchors above, and their callers / callees).{FOCUS}
Each should be 8-40 changed lines and realistic.

For each addition i = 1..3:
  1. make the edit in {wt}; run the test suite: exactly "9 failed, 386 passed";
  2. convince yourself the behaviour is unchanged: run the real pipeline before and after with several option sets that reach the touched
     code (e.g. --read_group file_name, --count_exons, --high_memory, --sqanti_output, --check_canonical, no --genedb, -t 2, --resume after a
     run, two experiments in one YAML, other --matching_strategy / --splice_correction_strategy / --model_construction_strategy values) and
     compare all output files byte for byte (except lines with the command line / time stamps / paths), and/or call the touched functions
     directly on many inputs, including the edge cases the addition is about (e.g. for a cache: two objects / chromosomes / strands with
     equal keys);
  3. save `git diff` to {wt}/seed_out/refactor<i>.diff and a short {wt}/seed_out/refactor<i>.txt (what was added, why behaviour cannot
     change), then `git checkout -- .` (each diff must apply to the unmodified tree on its own).
If an intended addition turns out to change behaviour, drop it and make another one. At the end the worktree must have no tracked
modifications. Do not use `git stash`. Report in a few lines what the three additions are.
"""
    else:
        body = f"""
YOUR TASK: produce FOUR *behaviour-preserving refactorings* of the code this property is anchored in - changes a careful maintainer could
make while cleaning up, after which the property STILL HOLDS and the program computes exactly the same results for every input. They are
used to find out whether a checker raises false alarms on correct code, so they must be genuinely correct, and they should touch the very
statements the property depends on. Make the four different in kind and, this time, more invasive than a rename:
  - restructure control flow (loop fusion/fission, while <-> for, recursion-free rewrite of a helper, flag variable <-> early exit,
    try/finally <-> context manager, match-like dispatch table <-> if/elif chain);
  - change a data representation locally and consistently (tuple <-> small named structure, list of pairs <-> two parallel lists <-> dict,
    set <-> sorted list where order is irrelevant, storing an index <-> storing the element);
  - split a function into two stages or merge two functions; turn a method into a module-level function or a static method (all call
    sites updated); move a responsibility from the caller into the callee or the other way round;
  - rename a parameter, method, attribute or class consistently across the whole project; reorder parameters with all call sites updated;
  - replace hand-written code by an equivalent library call or the reverse (itertools, collections, bisect, operator, str methods).
Each refactoring should be 10-80 changed lines and realistic.

For each refactoring i = 1..4:
  1. make the edit in {wt}; run the test suite: exactly "9 failed, 386 passed";
  2. convince yourself the behaviour is unchanged: run the real pipeline before and after with several option sets that reach the touched
     code (e.g. --read_group file_name, --count_exons, --high_memory, --sqanti_output, --check_canonical, no --genedb, -t 2, --resume after a
     run, other --matching_strategy / --splice_correction_strategy / --model_construction_strategy values) and compare all output files byte
     for byte (except lines with the command line / time stamps / paths), and/or call the touched functions directly on many inputs;
  3. save `git diff` to {wt}/seed_out/refactor<i>.diff and a short {wt}/seed_out/refactor<i>.txt (what kind of refactoring, why behaviour cannot
     change), then `git checkout -- .` (each diff must apply to the unmodified tree on its own).
If an intended refactoring turns out to change behaviour, drop it and make another one. At the end the worktree must have no tracked
modifications. Report in a few lines what the four refactorings are.
"""
    open("/tmp/seed%s_prompt_%s.txt" % (rnd, pid), "w").write(head + body)
print("prepared round %s (%s) for %d properties" % (rnd, mode, len(CLAIMED)))
