#!/usr/bin/env python3
"""Confirm seeded changes produced by independent sub-agents and run the checks against them.

For every /tmp/seed_<PID>/seed_out/change<i>.diff (round 1) or /tmp/seed<N>_<PID>/... with --round=N (ids <PID>-<i+2(N-1)>):
  1. in the scratch worktree /tmp/seed_<PID>: apply, run the pinned test suite (must be 386 passed / 9 failed), run the demo
     (must exit 1), revert, run the demo again (must exit 0);
  2. apply the patch to /repo, run `./check <PID>` (quick) and every other claimed check, record verdicts, undo with
     `git -C /repo checkout -- .`;
  3. store patch.diff, demo.py, note.txt and meta.json under /verif/seeded/<PID>-<i>/.
Never commits anything in /repo.
"""
import json
import os
import re
import shutil
import subprocess
import sys

VERIF = os.path.dirname(os.path.dirname(os.path.abspath(__file__)))
PY = "/venv/bin/python"
CLAIMED = ["C01", "C02", "C03", "C04", "C05", "C06", "C07", "C08", "C09", "C10", "C11", "C13", "C14", "C15", "C16", "C17", "C18", "C20"]


def sh(cmd, cwd=None, timeout=900):
    r = subprocess.run(cmd, cwd=cwd, capture_output=True, text=True, timeout=timeout)
    return r.returncode, r.stdout + r.stderr


ROUND = 1


def wt_of(pid):
    return "/tmp/seed%s_%s" % ("" if ROUND == 1 else str(ROUND), pid)


def confirm(pid, i):
    wt = wt_of(pid)
    out = os.path.join(wt, "seed_out")
    diff = os.path.join(out, "change%d.diff" % i)
    demo = os.path.join(out, "demo%d.py" % i)
    res = {"patch_applies": False}
    sh(["git", "checkout", "--", "."], cwd=wt)
    rc, o = sh(["git", "apply", diff], cwd=wt)
    if rc != 0:
        res["error"] = "patch does not apply in the worktree: " + o[-300:]
        return res
    res["patch_applies"] = True
    rc, o = sh([PY, "-m", "pytest", "-q", "-p", "no:cacheprovider", "--timeout=900", "--continue-on-collection-errors"], cwd=wt)
    m = re.search(r"(\d+) failed, (\d+) passed", o)
    res["tests_with_change"] = m.group(0) if m else o[-200:]
    rc1, o1 = sh([PY, demo, wt], cwd=wt)
    res["demo_exit_with_change"] = rc1
    sh(["git", "checkout", "--", "."], cwd=wt)
    rc0, o0 = sh([PY, demo, wt], cwd=wt)
    res["demo_exit_without_change"] = rc0
    res["demo_tail_with_change"] = o1.strip().splitlines()[-3:]
    res["confirmed"] = bool(m and m.group(0) == "9 failed, 386 passed" and rc1 == 1 and rc0 == 0)
    return res


def run_checks(pid, diff):
    res = {}
    rc, o = sh(["git", "-C", "/repo", "apply", "--check", diff])
    if rc != 0:
        return {"error": "patch does not apply to /repo HEAD: " + o[-200:]}
    sh(["git", "-C", "/repo", "apply", diff])
    try:
        order = [pid] + [c for c in CLAIMED if c != pid]
        for c in order:
            env = dict(os.environ, ISOQLINT_NO_EVIDENCE="1")
            r = subprocess.run(["./check", c], cwd=VERIF, capture_output=True, text=True, env=env, timeout=600)
            rules = sorted(set(re.findall(r"\[([A-Z]\d)\]", r.stdout)))
            if r.returncode != 0:
                res[c] = {"exit": r.returncode, "rules": rules,
                          "first": [l for l in r.stdout.splitlines() if "[" in l or "ANALYSIS" in l][:2]}
    finally:
        sh(["git", "-C", "/repo", "checkout", "--", "."])
    return res


def main():
    global ROUND
    args = sys.argv[1:]
    if args and args[0].startswith("--round="):
        ROUND = int(args[0].split("=")[1])
        args = args[1:]
    only = args
    summary = []
    for pid in CLAIMED:
        if only and pid not in only:
            continue
        out = wt_of(pid) + "/seed_out"
        for i in (1, 2):
            diff = os.path.join(out, "change%d.diff" % i)
            if not os.path.exists(diff):
                continue
            sid = "%s-%d" % (pid, i + {1: 0, 2: 2, 4: 4, 6: 6, 8: 8, 10: 10}.get(ROUND, 2 * (ROUND - 1)))   # rounds 3 and 5 were refactoring rounds
            conf = confirm(pid, i)
            checks = run_checks(pid, diff) if conf.get("confirmed") and not os.environ.get("ISOQ_SKIP_CHECKS") else {}   # (skipped: tools/recheck_parallel.py runs them on scratch worktrees)
            caught_own = pid in checks and checks[pid].get("exit") == 1
            caught_any = [c for c, v in checks.items() if isinstance(v, dict) and v.get("exit") == 1]
            d = os.path.join(VERIF, "seeded", sid)
            if conf.get("confirmed"):
                os.makedirs(d, exist_ok=True)
                shutil.copy(diff, os.path.join(d, "patch.diff"))
                shutil.copy(os.path.join(out, "demo%d.py" % i), os.path.join(d, "demo.py"))
                note = os.path.join(out, "note%d.txt" % i)
                if os.path.exists(note):
                    shutil.copy(note, os.path.join(d, "note.txt"))
                meta = {"id": sid, "property": pid, "round": ROUND, "source": "independent sub-agent given only the property text and a scratch worktree",
                        "needs_to_manifest": open(note).read()[:1500] if os.path.exists(note) else "",
                        "confirmation": conf,
                        "ran": ["git apply patch.diff (scratch worktree)", "pinned pytest command", "/venv/bin/python demo.py <tree> on both trees",
                                "git -C /repo apply; ./check <every claimed id>; git -C /repo checkout -- ."],
                        "checks_that_fire": checks, "caught_by_own_property_check": caught_own, "caught_by": caught_any}
                json.dump(meta, open(os.path.join(d, "meta.json"), "w"), indent=1)
            summary.append((sid, conf.get("confirmed"), caught_own, caught_any, conf.get("error") or checks.get("error")))
            print(sid, "confirmed=%s" % conf.get("confirmed"), "own=%s" % caught_own, "any=%s" % caught_any,
                  conf.get("error") or checks.get("error") or "", flush=True)
    rebuild_summary()


def rebuild_summary():
    base = os.path.join(VERIF, "seeded")
    rows = []
    for d in sorted(os.listdir(base)):
        mp = os.path.join(base, d, "meta.json")
        if os.path.exists(mp):
            m = json.load(open(mp))
            if m.get("kind") == "refactoring":
                rows.append({"id": m["id"], "kind": "refactoring", "confirmed_behaviour_preserving": m.get("confirmed_behaviour_preserving"),
                             "checks_not_silent": sorted(m.get("checks_not_silent", {}))})
                continue
            rows.append({"id": m["id"], "round": m.get("round", 1), "confirmed": m["confirmation"].get("confirmed"),
                         "caught_by_own": m.get("caught_by_own_property_check"), "caught_by": m.get("caught_by")})
    json.dump(rows, open(os.path.join(base, "SUMMARY.json"), "w"), indent=1)


def recheck(only):
    """Re-run every check against every stored seed (patch applied to /repo temporarily) and refresh meta.json."""
    base = os.path.join(VERIF, "seeded")
    for d in sorted(os.listdir(base)):
        mp = os.path.join(base, d, "meta.json")
        if not os.path.exists(mp) or (only and d not in only and d.split("-")[0] not in only):
            continue
        meta = json.load(open(mp))
        if meta.get("kind") == "refactoring":
            continue          # behaviour-preserving refactorings are handled by tools/recheck_refactors.py
        pid = meta["property"]
        checks = run_checks(pid, os.path.join(base, d, "patch.diff"))
        meta["checks_that_fire"] = checks
        meta["caught_by_own_property_check"] = pid in checks and checks[pid].get("exit") == 1
        meta["caught_by"] = [c for c, v in checks.items() if isinstance(v, dict) and v.get("exit") == 1]
        meta["analysis_broken_by"] = [c for c, v in checks.items() if isinstance(v, dict) and v.get("exit") not in (0, 1)]
        json.dump(meta, open(mp, "w"), indent=1)
        print(d, "own=%s" % meta["caught_by_own_property_check"], "any=%s" % meta["caught_by"],
              ("BROKEN=%s" % meta["analysis_broken_by"]) if meta["analysis_broken_by"] else "", checks.get("error", ""), flush=True)
    rebuild_summary()


if __name__ == "__main__":
    if sys.argv[1:] == ["--summary"]:
        rebuild_summary()
    elif sys.argv[1:2] == ["--recheck"]:
        recheck(sys.argv[2:])
    else:
        main()
