#!/bin/bash
# run every quick check on the current /repo tree; commit /verif only if all are clean
cd "$(dirname "$0")/.."
out=$(bash tools/run_all.sh 2>&1)
bad=$(echo "$out" | grep -v "obligations hold" | head -5)
n=$(echo "$out" | grep -c "obligations hold")
if [ -n "$bad" ] || [ "$n" != "18" ]; then echo "NOT COMMITTED: checks are not clean"; echo "$bad"; exit 1; fi
if [ -n "$(git -C /repo status --short)" ]; then echo "NOT COMMITTED: /repo has uncommitted changes"; exit 1; fi
python3-vt tools/make_reference.py >/dev/null   # /repo is clean here: the snapshot always matches the tree the checks were just run on
python3 tools/gen_manifest.py >/dev/null
git add -A && git commit -qm "$1" && echo "committed: $1"
