#!/usr/bin/env python3
"""Rounds 3 and 5 (--round=5): behaviour-preserving refactorings produced by independent sub-agents (false-alarm hunt).

For every /tmp/seed3_<PID>/seed_out/refactor<i>.diff:
  1. in the scratch worktree: apply; pinned test suite must stay 386 passed / 9 failed; the toy pipeline is run with four option
     sets and every output file must equal the baseline produced by the unmodified tree (lines with command line / dates dropped);
  2. apply to /repo, run every claimed check (no evidence written), undo; a check that does not exit 0 is a FALSE ALARM (exit 1)
     or a broken analysis (exit 2);
  3. store patch, note and meta.json under /verif/seeded/<PID>-r<i>/ (kind = refactoring).
"""
import gzip
import json
import os
import re
import shutil
import subprocess
import sys
import tempfile

VERIF = os.path.dirname(os.path.dirname(os.path.abspath(__file__)))
PY = "/venv/bin/python"
CLAIMED = ["C01", "C02", "C03", "C04", "C05", "C06", "C07", "C08", "C09", "C10", "C11", "C13", "C14", "C15", "C16", "C17", "C18", "C20"]
D = "tests/simple_data/"
BASE = ["--data_type", "nanopore", "--bam", D + "chr9.4M.ont.sim.polya.bam", "-r", D + "chr9.4M.fa.gz", "--prefix", "P"]
VARIANTS = {
    "default": BASE + ["--genedb", D + "chr9.4M.gtf.gz", "--complete_genedb", "-t", "1"],
    "options": BASE + ["--genedb", D + "chr9.4M.gtf.gz", "--complete_genedb", "-t", "1", "--read_group", "file_name", "--count_exons",
                       "--sqanti_output", "--check_canonical", "--report_canonical", "all", "--splice_correction_strategy", "all",
                       "--transcript_quantification", "all", "--gene_quantification", "all"],
    "highmem": BASE + ["--genedb", D + "chr9.4M.gtf.gz", "--complete_genedb", "-t", "2", "--high_memory"],
    "nogenedb": BASE + ["-t", "1", "--report_novel_unspliced", "true"],
}


def sh(cmd, cwd=None, timeout=1800, env=None):
    r = subprocess.run(cmd, cwd=cwd, capture_output=True, text=True, timeout=timeout, env=env)
    return r.returncode, r.stdout + r.stderr


def snapshot(tree, variant, home):
    out = tempfile.mkdtemp(prefix="isoq_ref_", dir="/tmp")
    env = dict(os.environ, HOME=home)
    rc, o = sh([PY, "isoquant.py"] + VARIANTS[variant] + ["-o", out], cwd=tree, env=env)
    snap = {"__exit__": rc}
    d = os.path.join(out, "P")
    if os.path.isdir(d):
        for f in sorted(os.listdir(d)):
            p = os.path.join(d, f)
            if os.path.isfile(p):
                try:
                    data = gzip.open(p, "rt").read() if f.endswith(".gz") else open(p).read()
                except Exception:
                    data = "<binary>"
                snap[f] = [l for l in data.split("\n") if not re.search(r"Command line|isoquant\.py|/tmp/", l)]
    shutil.rmtree(out, ignore_errors=True)
    for f in os.listdir(os.path.join(tree, D)):
        if f.endswith((".fai", ".gzi")):
            os.remove(os.path.join(tree, D, f))
    return snap


def main():
    args = sys.argv[1:]
    rnd = 3
    if args and args[0].startswith("--round="):
        rnd = int(args[0].split("=")[1])
        args = args[1:]
    offset = {3: 0, 5: 4, 9: 8, 11: 11}.get(rnd, 4 * ((rnd - 3) // 2))
    only = args
    home = tempfile.mkdtemp(prefix="isoq_home_", dir="/tmp")
    base = None
    for pid in CLAIMED:
        if only and pid not in only:
            continue
        wt = "/tmp/seed%d_%s" % (rnd, pid)
        outd = os.path.join(wt, "seed_out")
        if not os.path.isdir(outd):
            continue
        for i in range(1, 7):
            diff = os.path.join(outd, "refactor%d.diff" % i)
            if not os.path.exists(diff):
                continue
            sid = "%s-r%d" % (pid, i + offset)
            sh(["git", "checkout", "--", "."], cwd=wt)
            if base is None:
                base = {v: snapshot(wt, v, home) for v in VARIANTS}
            res = {"id": sid, "property": pid, "kind": "refactoring"}
            rc, o = sh(["git", "apply", diff], cwd=wt)
            if rc != 0:
                print(sid, "patch does not apply:", o[-200:])
                continue
            rc, o = sh([PY, "-m", "pytest", "-q", "-p", "no:cacheprovider", "--timeout=900", "--continue-on-collection-errors"], cwd=wt)
            m = re.search(r"(\d+) failed, (\d+) passed", o)
            res["tests"] = m.group(0) if m else o[-200:]
            diffs = {}
            for v in VARIANTS:
                s = snapshot(wt, v, home)
                bad = [f for f in set(s) | set(base[v]) if s.get(f) != base[v].get(f)]
                if bad:
                    diffs[v] = sorted(bad)[:6]
            res["output_differences"] = diffs
            sh(["git", "checkout", "--", "."], cwd=wt)
            res["confirmed_behaviour_preserving"] = bool(m and m.group(0) == "9 failed, 386 passed" and not diffs)
            checks = {}
            rc, o = sh(["git", "-C", "/repo", "apply", "--check", diff])
            if rc != 0:
                res["error"] = "does not apply to /repo HEAD"
            elif rnd != 3:
                pass            # the checks are run afterwards on scratch worktrees, 14 at a time: tools/recheck_parallel.py --refactorings
            else:
                sh(["git", "-C", "/repo", "apply", diff])
                try:
                    for c in CLAIMED:
                        r = subprocess.run(["./check", c], cwd=VERIF, capture_output=True, text=True, env=dict(os.environ, ISOQLINT_NO_EVIDENCE="1"), timeout=600)
                        if r.returncode != 0:
                            checks[c] = {"exit": r.returncode, "rules": sorted(set(re.findall(r"\[([A-Z]\d)\]", r.stdout))),
                                         "first": [l[:300] for l in r.stdout.splitlines() if "[" in l or "ANALYSIS" in l][:3]}
                finally:
                    sh(["git", "-C", "/repo", "checkout", "--", "."])
            res["checks_not_silent"] = checks
            d = os.path.join(VERIF, "seeded", sid)
            os.makedirs(d, exist_ok=True)
            shutil.copy(diff, os.path.join(d, "patch.diff"))
            note = os.path.join(outd, "refactor%d.txt" % i)
            if os.path.exists(note):
                shutil.copy(note, os.path.join(d, "note.txt"))
                res["what"] = open(note).read()[:800]
            res["source"] = "independent sub-agent given only the property text and a scratch worktree; asked for behaviour-preserving refactorings"
            res["ran"] = ["pinned pytest command", "toy pipeline with 4 option sets compared with the unmodified tree", "every ./check with the patch applied to /repo"]
            json.dump(res, open(os.path.join(d, "meta.json"), "w"), indent=1)
            print(sid, "preserving=%s" % res["confirmed_behaviour_preserving"], "tests=%s" % res["tests"], "outdiff=%s" % (diffs or "-"),
                  "ALARMS=%s" % {k: (v["exit"], v["rules"]) for k, v in checks.items()} if checks else "silent", flush=True)
    shutil.rmtree(home, ignore_errors=True)


main()
