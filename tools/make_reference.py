#!/usr/bin/env python3
"""Snapshot of the functions of /repo (import closure of isoquant.py) the rules were confirmed on: isoqlint/reference_functions.json.
Used only to rename local variables back to the names the rules know (engine/alpha.py); regenerate after a deliberate change of /repo."""
import ast, json, os, sys, textwrap
sys.path.insert(0, os.path.dirname(os.path.dirname(os.path.abspath(__file__))))
os.environ["ISOQLINT_NO_ALPHA"] = "1"
from isoqlint.engine.program import Program
prog = Program()
out = {}
for rel, m in sorted(prog.modules.items()):
    d = {}
    def visit(node, prefix):
        for st in getattr(node, "body", []):
            if isinstance(st, (ast.FunctionDef, ast.AsyncFunctionDef)):
                d[prefix + st.name] = ast.unparse(st)
            elif isinstance(st, ast.ClassDef):
                visit(st, prefix + st.name + ".")
    visit(m.tree, "")
    out[rel] = d
# every identifier of the tree (names, attributes, definitions, parameters, keywords): engine/globalnames.py needs to know which
# identifiers of a later tree are new
idents = set()
for rel, m in prog.modules.items():
    for n in ast.walk(m.tree):
        if isinstance(n, ast.Name):
            idents.add(n.id)
        elif isinstance(n, ast.Attribute):
            idents.add(n.attr)
        elif isinstance(n, (ast.FunctionDef, ast.AsyncFunctionDef, ast.ClassDef)):
            idents.add(n.name)
        elif isinstance(n, ast.arg):
            idents.add(n.arg)
        elif isinstance(n, ast.keyword) and n.arg:
            idents.add(n.arg)
        elif isinstance(n, ast.alias):
            idents.add((n.asname or n.name).split(".")[-1])
out["__identifiers__"] = sorted(idents)
p = os.path.join(os.path.dirname(os.path.dirname(os.path.abspath(__file__))), "isoqlint", "reference_functions.json")
json.dump(out, open(p, "w"), indent=0, sort_keys=True)
print("reference snapshot: %d modules, %d functions, %d identifiers, %d bytes" % (len(out) - 1, sum(len(v) for k, v in out.items() if k != "__identifiers__"), len(idents), os.path.getsize(p)))
