#!/usr/bin/env python3
"""Snapshot of the functions of /repo (import closure of isoquant.py) the rules were confirmed on: isoqlint/reference_functions.json.
Used only to rename local variables back to the names the rules know (engine/alpha.py); regenerate after a deliberate change of /repo."""
import ast, json, os, sys, textwrap
sys.path.insert(0, os.path.dirname(os.path.dirname(os.path.abspath(__file__))))
os.environ["ISOQLINT_NO_ALPHA"] = "1"
from isoqlint.engine.program import Program
prog = Program()
out = {}
for rel, m in sorted(prog.modules.items()):
    d = {}
    def visit(node, prefix):
        for st in getattr(node, "body", []):
            if isinstance(st, (ast.FunctionDef, ast.AsyncFunctionDef)):
                d[prefix + st.name] = ast.unparse(st)
            elif isinstance(st, ast.ClassDef):
                visit(st, prefix + st.name + ".")
    visit(m.tree, "")
    out[rel] = d
p = os.path.join(os.path.dirname(os.path.dirname(os.path.abspath(__file__))), "isoqlint", "reference_functions.json")
json.dump(out, open(p, "w"), indent=0, sort_keys=True)
print("reference snapshot: %d modules, %d functions, %d bytes" % (len(out), sum(len(v) for v in out.values()), os.path.getsize(p)))
