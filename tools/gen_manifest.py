#!/usr/bin/env python3
"""Regenerates /verif/MANIFEST.json from the table below (edit here, then run)."""
import json
import os

VERIF = os.path.dirname(os.path.dirname(os.path.abspath(__file__)))
N_FIXED = len({f["status"] for f in json.load(open(os.path.join(VERIF, "known_findings.json")))["findings"] if f["status"].startswith("fixed")})

BASELINE = ("cd /repo && /venv/bin/python -m pytest -ra -q -p no:cacheprovider --timeout=900 "
            "--continue-on-collection-errors")

TRUST = ("Trusted: CPython ast; the isoqlint engine; the frozen tables named in DESIGN.md for this rule "
         "(each entry with a reason, printed in the evidence). The check decides the named structural "
         "condition on every path the walker enumerates; it is a necessary condition of the property, "
         "not the runtime behaviour.")

# id -> (technique, claim text, design ref)
CLAIMS = {}

NOT_APPLICABLE = {}


def claim(pid, technique, text, ref):
    CLAIMS[pid] = (technique, text, ref)


def na(pid, reason):
    NOT_APPLICABLE[pid] = reason


exec(open(os.path.join(VERIF, "tools", "claims.py")).read())


def main():
    checks = []
    for pid in sorted(CLAIMS):
        technique, text, ref = CLAIMS[pid]
        checks.append({
            "property_id": pid,
            "quick_cmd": "./check %s --tier quick" % pid,
            "thorough_cmd": "./check %s --tier thorough" % pid,
            "evidence_file": "evidence/%s.json" % pid,
            "replay_cmd_template": "./check %s --replay {path}" % pid,
            "engine": "isoqlint",
            "level_claimed": {"category": "other", "text": text, "design_ref": ref},
            "level_note": TRUST,
            "technique": technique,
        })
    man = {
        "version": 1,
        "setup_cmd": "python3-vt -m compileall -q /verif/isoqlint",
        "hooks": {
            "guard": "ABLAB_ISOQUANT_VERIF",
            "enable": "none needed: the analysis reads /repo's source; no instrumentation exists in /repo",
            "baseline_off_cmd": BASELINE,
            "source_commits": [],
            "add_only": True,
        },
        "engines": [{
            "name": "isoqlint",
            "path": "isoqlint/",
            "serves_properties": sorted(CLAIMS),
            "kind_free_text": "repository-specific static analysis over Python ast: guard dominance, path enumeration, "
                              "wire-type trees, table agreement, memo/key dataflow, typestate over marker files, order taint",
        }],
        "checks": checks,
        "notes": "Static analysis family only. Every claim is a necessary structural condition (see DESIGN.md section 0); "
                 "exit 2 + ANALYSIS-ERROR means the analysis could not decide (missing anchor, instance floor), never a verdict. "
                 "Known findings: known_findings.json - %d genuine defects were repaired with fix: commits in /repo (entries 'fixed: <commit>', " % N_FIXED +
                 "they suppress nothing); 2 are recorded and not repaired (status 'known': C02/W7 a read tied between two loci is counted "
                 "twice, C11/X5 polyT positions are 2 bp off the mirror image of polyA positions; reasons in DESIGN.md 11.3), the checks "
                 "print KNOWN-FINDING lines for exactly these keys and exit 0.",
        "not_applicable": [{"property_id": p, "reason": r} for p, r in sorted(NOT_APPLICABLE.items())],
    }
    with open(os.path.join(VERIF, "MANIFEST.json"), "w") as f:
        json.dump(man, f, indent=1)
    print("MANIFEST.json: %d checks, %d not applicable" % (len(checks), len(NOT_APPLICABLE)))


main()
