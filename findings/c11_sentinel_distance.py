#!/usr/bin/env python3
"""C11 demo: the 'not found' value -1 of a polyA/polyT position enters a distance computation.

usage: /venv/bin/python c11_sentinel_distance.py [repo_root]     exit 1 = outcome depends on the absolute coordinate, 0 = it does not

PolyAVerifier.detect_reference_exons_beyond_polya / _before_polyt measure abs(exon_border - external_pos) and
abs(exon_border - internal_pos) and take the minimum, without excluding an undetected (-1) position the way their sibling
check_if_close does (math.inf).  Near the start of a reference sequence abs(border - (-1)) = border + 1 is small and wins the
minimum: the same read / isoform pair gets terminal_exon_misalignment events at coordinates < ~40 and none when everything is
shifted by 10 kb - the result is not translation-equivariant, and since -1 has no mirror image, not reflection-equivariant either.
"""
import os
import sys
from collections import namedtuple

root = os.path.abspath(sys.argv[1]) if len(sys.argv) > 1 else "/repo"
sys.path.insert(0, root)
from src.polya_verification import PolyAVerifier  # noqa: E402

P = namedtuple("P", "max_fake_terminal_exon_len max_missed_exon_len delta apa_delta")
params = P(40, 100, 6, 50)           # the 'default' matching strategy
v = PolyAVerifier(None, params)


def right(shift):
    iso = [(5 + shift, 30 + shift), (100 + shift, 130 + shift)]
    ev, ext, inn = v.detect_reference_exons_beyond_polya(iso, -1, 95 + shift, [])
    return [e.event_type.name for e in ev], (ext if ext == -1 else ext - shift), inn - shift


def left(shift):
    # polyT side: exons before the polyT position; the sentinel makes abs(border + 1) small near coordinate 0
    iso = [(2 + shift, 8 + shift), (20 + shift, 90 + shift)]
    ev, ext, inn = v.detect_reference_exons_before_polyt(iso, -1, 75 + shift, [])
    return [e.event_type.name for e in ev], (ext if ext == -1 else ext - shift), inn - shift


bad = 0
for name, fn in (("beyond_polya", right), ("before_polyt", left)):
    a, b = fn(0), fn(10000)
    print("%s at offset 0: %s   at offset 10000: %s" % (name, a, b))
    bad += a != b
sys.exit(1 if bad else 0)
