#!/usr/bin/env python3
"""C04 demo: a reported novel model contains an intron that no read has.

usage: /venv/bin/python c04_merged_intron.py [repo_root]     exit 1 = a model has an unsupported intron, 0 = every intron is in a read

12 polyA reads have exons 600-800,1000-1200,1513-1530,2000-2200,2500-2800; 4 polyA reads have exons
600-800,1000-1200,1500-1510,2000-2200,2700-3000 (all introns GT..AG, annotation-free run).  IntronGraph.collapse_vertex_set replaces
the weaker intron 1201-1499 by its sibling 1201-1512 (ends 13 bp apart, below graph_clustering_distance).  The second read type's
next intron starts at 1511, so its threaded chain holds two overlapping introns (1201-1512, 1511-1999); get_exons drops the 11-bp
exon between them and the reported model has the merged intron 1201-1999, which is in no read.
(Found by a seeding sub-agent as an observation on the unmodified tree, confirmed here.)
"""
import os
import random
import shutil
import subprocess
import sys
import tempfile

root = os.path.abspath(sys.argv[1]) if len(sys.argv) > 1 else "/repo"
import pysam  # noqa: E402

A = [(600, 800), (1000, 1200), (1513, 1530), (2000, 2200), (2500, 2800)]
B = [(600, 800), (1000, 1200), (1500, 1510), (2000, 2200), (2700, 3000)]


def introns(ex):
    return [(ex[i][1] + 1, ex[i + 1][0] - 1) for i in range(len(ex) - 1)]


rnd = random.Random(7)
seq, prev = [], ""
for _ in range(4000):
    c = rnd.choice("ACGT")
    while c == prev and c in "AT":
        c = rnd.choice("ACGT")
    seq.append(c)
    prev = c
for s, e in sorted(set(introns(A) + introns(B))):
    seq[s - 1:s + 1] = "GT"
    seq[e - 2:e] = "AG"
genome = "".join(seq)
tmp = tempfile.mkdtemp(prefix="c04_merged_")
try:
    fa = os.path.join(tmp, "g.fa")
    with open(fa, "w") as f:
        f.write(">chr1\n")
        for i in range(0, len(genome), 60):
            f.write(genome[i:i + 60] + "\n")
    bam = os.path.join(tmp, "r.bam")
    header = {"HD": {"VN": "1.0", "SO": "coordinate"}, "SQ": [{"LN": len(genome), "SN": "chr1"}]}
    with pysam.AlignmentFile(bam + ".u.bam", "wb", header=header) as out:
        for name, exons in [("a%d" % i, A) for i in range(12)] + [("b%d" % i, B) for i in range(4)]:
            a = pysam.AlignedSegment()
            a.query_name = name
            s, cigar = "", []
            for i, (x, y) in enumerate(exons):
                if i:
                    cigar.append((3, x - exons[i - 1][1] - 1))
                s += genome[x - 1:y]
                cigar.append((0, y - x + 1))
            s += "A" * 30
            cigar.append((4, 30))
            a.query_sequence, a.flag, a.reference_id, a.reference_start, a.mapping_quality, a.cigartuples = s, 0, 0, exons[0][0] - 1, 60, cigar
            a.query_qualities = pysam.qualitystring_to_array("I" * len(s))
            out.write(a)
    pysam.sort("-o", bam, bam + ".u.bam")
    pysam.index(bam)
    env = dict(os.environ, HOME=os.path.join(tmp, "home"))
    r = subprocess.run([sys.executable, os.path.join(root, "isoquant.py"), "--data_type", "nanopore", "--bam", bam, "-r", fa,
                        "-o", os.path.join(tmp, "out"), "--prefix", "S", "-t", "1"], env=env, capture_output=True, text=True)
    if r.returncode:
        print("pipeline failed", r.stderr[-400:])
        sys.exit(1)
    read_introns = set(introns(A) + introns(B))
    tx = {}
    for l in open(os.path.join(tmp, "out", "S", "S.transcript_models.gtf")):
        v = l.split("\t")
        if not l.startswith("#") and v[2] == "exon":
            tx.setdefault(v[8].split('transcript_id "')[1].split('"')[0], []).append((int(v[3]), int(v[4])))
    bad = 0
    for tid, ex in sorted(tx.items()):
        ex.sort()
        miss = [i for i in introns(ex) if i not in read_introns]
        print(tid, ex, "UNSUPPORTED introns %s" % miss if miss else "ok")
        bad += bool(miss)
    print("VIOLATED" if bad else "holds")
    sys.exit(1 if bad else 0)
finally:
    shutil.rmtree(tmp, ignore_errors=True)
