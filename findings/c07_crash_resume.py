#!/usr/bin/env python3
"""Demonstration for C07 (one-off triage, not part of any check).

Kills IsoQuant (os._exit, like SIGKILL: no destructors, no buffered data flushed) at one file-system
mutation point and continues with --resume, then compares the final outputs with an uninterrupted run.

usage: /venv/bin/python c07_crash_resume.py <repo-root> <crash-point>
  crash-point:  collected  - right after the first  <save>_<chr>_collected marker was created
                processed  - right after the first  <dump>_<chr>_processed marker was created
                merge      - right after merge_files removed the first per-chromosome part
exit 0 = resumed run completed with identical outputs, 1 = it failed or outputs differ
"""
import gzip
import os
import shutil
import subprocess
import sys
import tempfile

repo = os.path.abspath(sys.argv[1])
point = sys.argv[2]
PY = sys.executable
data = os.path.join(repo, "tests", "simple_data")
common = ["--data_type", "nanopore", "--bam", os.path.join(data, "chr9.4M.ont.sim.polya.bam"),
          "--genedb", os.path.join(data, "chr9.4M.gtf.gz"), "--complete_genedb",
          "-r", os.path.join(data, "chr9.4M.fa.gz"), "-t", "1", "--prefix", "P"]

INJECT = r'''
import builtins, os, sys, runpy
point = %r
real_open = builtins.open
real_remove = os.remove
def patched_open(path, mode="r", *a, **kw):
    f = real_open(path, mode, *a, **kw)
    p = str(path)
    if "w" in mode and ((point == "collected" and p.endswith("_collected")) or (point == "processed" and p.endswith("_processed"))):
        f.close()
        os._exit(9)
    return f
def patched_remove(path, *a, **kw):
    real_remove(path, *a, **kw)
    if point == "merge" and "P_chr" in os.path.basename(str(path)) and not str(path).endswith(("_collected", "_processed", "_lock")):
        os._exit(9)
builtins.open = patched_open
os.remove = patched_remove
sys.argv = ["isoquant.py"] + %r
runpy.run_path(%r, run_name="__main__")
'''


def run(cmd, home):
    env = dict(os.environ, HOME=home)
    return subprocess.run(cmd, cwd=repo, env=env, capture_output=True, text=True)


def lines(path):
    op = gzip.open if path.endswith(".gz") else open
    with op(path, "rt") as f:
        return [l for l in f if not l.startswith("#")]


work = tempfile.mkdtemp(prefix="c07demo_")
try:
    out_a, out_b = os.path.join(work, "crashed"), os.path.join(work, "clean")
    r = run([PY, "-c", INJECT % (point, ["-o", out_a] + common, os.path.join(repo, "isoquant.py"))], work)
    print("crashed run exit code:", r.returncode, "(9 = killed at the injected point)")
    if r.returncode != 9:
        print(r.stdout[-2000:], r.stderr[-2000:])
        sys.exit(2)
    r2 = run([PY, os.path.join(repo, "isoquant.py"), "--resume", "-o", out_a], work)
    print("resumed run exit code:", r2.returncode)
    r3 = run([PY, os.path.join(repo, "isoquant.py"), "-o", out_b] + common, work)
    print("clean run exit code:", r3.returncode)
    bad = r2.returncode != 0
    if bad:
        tail = [l for l in (r2.stdout + r2.stderr).splitlines() if l.strip()][-6:]
        print("RESUME FAILED:\n  " + "\n  ".join(tail))
    else:
        for fn in sorted(os.listdir(os.path.join(out_b, "P"))):
            pa, pb = os.path.join(out_a, "P", fn), os.path.join(out_b, "P", fn)
            if os.path.isdir(pb):
                continue
            if not os.path.exists(pa):
                print("MISSING after resume:", fn)
                bad = True
                continue
            la, lb = lines(pa), lines(pb)
            if la != lb:
                print("DIFFERENT: %-45s resumed %6d lines, clean %6d lines" % (fn, len(la), len(lb)))
                bad = True
    print("RESULT:", "resume does NOT reproduce the clean run" if bad else "resume reproduces the clean run")
    sys.exit(1 if bad else 0)
finally:
    shutil.rmtree(work, ignore_errors=True)
    for junk in ("chr9.4M.fa.gz.fai", "chr9.4M.fa.gz.gzi"):
        try:
            os.remove(os.path.join(data, junk))
        except OSError:
            pass
