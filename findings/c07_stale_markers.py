#!/usr/bin/env python3
# EXTRA (not a seeded change): this sequence already violates C07 on the UNMODIFIED tree (exit 1 there).
# earlier crashed run, is killed itself and then resumed, must give the outputs of an uninterrupted run.
#
#   step 1  run A  (--data_type nanopore)            killed after chr9 was collected (per-chromosome lock on disk,
#                                                    experiment-level lock not yet written)
#   step 2  run B  (--data_type pacbio_ccs --force)  same folder, NOT a resume; killed right after .params was saved
#   step 3  --resume                                 continues run B
#   check   final files of step 3 == final files of an uninterrupted run B
#
# usage: demo1.py <repo-root>     exit 0 = property holds, exit 1 = violated
import sys, os, subprocess, gzip, shutil, tempfile

WRAPPER = r'''
import sys, os, builtins, gzip
repo, spec, argv = sys.argv[1], sys.argv[2], sys.argv[3:]
sys.path.insert(0, repo)
kind, suffix = (spec.split("=", 1) + [""])[:2] if spec != "none" else ("", "")
def tick(k, name):
    if kind and k == kind and str(name).endswith(suffix):
        sys.stdout.flush()
        os._exit(77)
_open, _gzopen, _remove = builtins.open, gzip.open, os.remove
def my_open(file, mode="r", *a, **k):
    if isinstance(file, (str, bytes)) and any(c in mode for c in "wax+"):
        tick("open", file)
    return _open(file, mode, *a, **k)
def my_gzopen(file, mode="rb", *a, **k):
    if isinstance(file, (str, bytes)) and any(c in mode for c in "wax+"):
        tick("gzopen", file)
    return _gzopen(file, mode, *a, **k)
def my_remove(p, *a, **k):
    tick("remove", p)
    return _remove(p, *a, **k)
builtins.open, gzip.open, os.remove = my_open, my_gzopen, my_remove
sys.argv = ["isoquant.py"] + argv
import isoquant
isoquant.main(argv)
'''


def run(repo, scratch, crash_spec, argv):
    w = os.path.join(scratch, "wrapper.py")
    with open(w, "w") as f:
        f.write(WRAPPER)
    env = dict(os.environ, HOME=scratch, ABLAB_ISOQUANT_VERIF="1")
    p = subprocess.run([sys.executable, w, repo, crash_spec] + argv, env=env, cwd=scratch,
                       stdout=subprocess.PIPE, stderr=subprocess.STDOUT, text=True)
    return p.returncode, p.stdout


def read_norm(path):
    data = gzip.open(path, "rt").read() if path.endswith(".gz") else open(path).read()
    # the command line differs between folders by construction
    return [l for l in data.split("\n") if not l.startswith("# Command line")]


def snapshot(outdir, prefix):
    d = os.path.join(outdir, prefix)
    return {f: read_norm(os.path.join(d, f)) for f in sorted(os.listdir(d)) if os.path.isfile(os.path.join(d, f))}


def main():
    repo = os.path.abspath(sys.argv[1])
    scratch = tempfile.mkdtemp(prefix="c07_extra_")
    try:
        sd = os.path.join(repo, "tests", "simple_data")
        common = ["--bam", sd + "/chr9.4M.ont.sim.polya.bam", "--genedb", sd + "/chr9.4M.gtf.gz", "--complete_genedb",
                  "-r", sd + "/chr9.4M.fa.gz", "-t", "1", "--prefix", "P"]
        opts_a = ["--data_type", "nanopore"] + common
        opts_b = ["--data_type", "pacbio_ccs"] + common

        clean = os.path.join(scratch, "clean_B")
        rc, out = run(repo, scratch, "none", ["-o", clean] + opts_b)
        if rc != 0:
            print(out[-3000:]); print("uninterrupted run failed, rc", rc); return 2
        ref = snapshot(clean, "P")

        work = os.path.join(scratch, "work")
        rc, out = run(repo, scratch, "open=P.save_multimappers_chr9", ["-o", work] + opts_a)
        if rc != 77:
            print(out[-3000:]); print("run A was not killed where expected, rc", rc); return 2
        assert os.path.exists(os.path.join(work, "P", "aux", "P.save_chr9_collected"))
        assert not os.path.exists(os.path.join(work, "P", "aux", "P.save_lock"))

        rc, out = run(repo, scratch, "open=P.read_group_lock", ["-o", work, "--force"] + opts_b)
        if rc != 77:
            print(out[-3000:]); print("run B was not killed where expected, rc", rc); return 2
        assert os.path.exists(os.path.join(work, ".params"))

        rc, out = run(repo, scratch, "none", ["--resume", "-o", work])
        if rc != 0:
            print(out[-3000:]); print("VIOLATION: resumed run exited with", rc); return 1
        got = snapshot(work, "P")
        bad = sorted(f for f in set(ref) | set(got) if ref.get(f) != got.get(f))
        if bad:
            print("VIOLATION: resumed run exited 0 but these final files differ from an uninterrupted run:")
            for f in bad:
                print("   %s (%s lines vs %s lines)" % (f, len(got.get(f, [])), len(ref.get(f, []))))
            return 1
        print("OK: %d final files identical after kill + resume" % len(ref))
        return 0
    finally:
        shutil.rmtree(scratch, ignore_errors=True)


if __name__ == "__main__":
    sys.exit(main())
