#!/usr/bin/env python3
"""Demonstration for C10 (one-off triage, not part of any check).

Runs IsoQuant once on a YAML with two experiments E1 and E2 that point to the SAME BAM file (--threads 1, so both are
processed by one interpreter).  Since the data are identical, every per-experiment output of E2 must equal E1's
(after replacing the experiment name).  On the defective tree E2 loses the known transcripts that E1 already
"detected" (class-level set GraphBasedModelConstructor.detected_known_isoforms).

usage: /venv/bin/python c10_two_experiments.py <repo-root>     exit 0 = E1 == E2, 1 = they differ
"""
import gzip
import os
import shutil
import subprocess
import sys
import tempfile

repo = os.path.abspath(sys.argv[1] if len(sys.argv) > 1 else "/repo")
data = os.path.join(repo, "tests", "simple_data")
work = tempfile.mkdtemp(prefix="c10demo_")
try:
    y = os.path.join(work, "two.yaml")
    bam = os.path.join(data, "chr9.4M.ont.sim.polya.bam")
    with open(y, "w") as f:
        f.write('[\n  data format: "bam",\n  {name: "E1", long read files: ["%s"]},\n  {name: "E2", long read files: ["%s"]}\n]\n' % (bam, bam))
    out = os.path.join(work, "out")
    r = subprocess.run([sys.executable, os.path.join(repo, "isoquant.py"), "-o", out, "--data_type", "nanopore", "--yaml", y,
                        "--genedb", os.path.join(data, "chr9.4M.gtf.gz"), "--complete_genedb",
                        "-r", os.path.join(data, "chr9.4M.fa.gz"), "-t", "1"],
                       cwd=repo, env=dict(os.environ, HOME=work), capture_output=True, text=True)
    print("isoquant exit code:", r.returncode)
    if r.returncode != 0:
        print((r.stdout + r.stderr)[-1500:])
        sys.exit(2)

    def lines(p):
        op = gzip.open if p.endswith(".gz") else open
        with op(p, "rt") as f:
            return [l for l in f if not l.startswith("#")]
    bad = False
    for fn in sorted(os.listdir(os.path.join(out, "E1"))):
        p1 = os.path.join(out, "E1", fn)
        p2 = os.path.join(out, "E2", fn.replace("E1", "E2"))
        if os.path.isdir(p1):
            continue
        if not os.path.exists(p2):
            print("MISSING in E2:", fn)
            bad = True
            continue
        l1, l2 = lines(p1), [l.replace("E2", "E1") for l in lines(p2)]
        if l1 != l2:
            bad = True
            print("DIFFERENT: %-42s E1 %5d lines, E2 %5d lines" % (fn, len(l1), len(l2)))
    print("RESULT:", "second experiment differs from the first although the data are identical" if bad else "E1 == E2")
    sys.exit(1 if bad else 0)
finally:
    shutil.rmtree(work, ignore_errors=True)
    for junk in ("chr9.4M.fa.gz.fai", "chr9.4M.fa.gz.gzi"):
        try:
            os.remove(os.path.join(data, junk))
        except OSError:
            pass
