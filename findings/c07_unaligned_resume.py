#!/usr/bin/env python3
"""Demonstration for C07 (state gathered in a skipped stage).  One-off triage, not part of any check.

Adds three unmapped reads to the toy BAM, kills the run right after the first <dump>_<chr>_processed marker
(read collection is complete at that point) and resumes.  The __not_aligned line of gene_counts.tsv must be the
same as in an uninterrupted run.
usage: /venv/bin/python c07_unaligned_resume.py <repo-root>    exit 0 = equal, 1 = differs
"""
import os
import shutil
import subprocess
import sys
import tempfile

import pysam

repo = os.path.abspath(sys.argv[1])
data = os.path.join(repo, "tests", "simple_data")
work = tempfile.mkdtemp(prefix="c07demo2_")
try:
    src_bam = os.path.join(data, "chr9.4M.ont.sim.polya.bam")
    bam = os.path.join(work, "with_unmapped.bam")
    with pysam.AlignmentFile(src_bam, "rb") as inp, pysam.AlignmentFile(bam, "wb", template=inp) as out:
        for a in inp:
            out.write(a)
        for i in range(3):
            a = pysam.AlignedSegment(out.header)
            a.query_name = "unmapped_%d" % i
            a.query_sequence = "ACGTACGTAC"
            a.flag = 4
            a.reference_id = -1
            a.reference_start = -1
            a.query_qualities = pysam.qualitystring_to_array("IIIIIIIIII")
            out.write(a)
    pysam.index(bam)
    common = ["--data_type", "nanopore", "--bam", bam, "--genedb", os.path.join(data, "chr9.4M.gtf.gz"), "--complete_genedb",
              "-r", os.path.join(data, "chr9.4M.fa.gz"), "-t", "1", "--prefix", "P"]
    inject = (
        "import builtins, os, sys, runpy\n"
        "ro = builtins.open\n"
        "def po(path, mode='r', *a, **k):\n"
        "    f = ro(path, mode, *a, **k)\n"
        "    if 'w' in mode and str(path).endswith('_processed'):\n"
        "        f.close(); os._exit(9)\n"
        "    return f\n"
        "builtins.open = po\n"
        "sys.argv = ['isoquant.py'] + %r\n"
        "runpy.run_path(%r, run_name='__main__')\n")
    env = dict(os.environ, HOME=work)
    oa, ob = os.path.join(work, "a"), os.path.join(work, "b")
    r = subprocess.run([sys.executable, "-c", inject % (["-o", oa] + common, os.path.join(repo, "isoquant.py"))], cwd=repo, env=env,
                       capture_output=True, text=True)
    print("crashed run exit:", r.returncode)
    r2 = subprocess.run([sys.executable, os.path.join(repo, "isoquant.py"), "--resume", "-o", oa], cwd=repo, env=env, capture_output=True, text=True)
    r3 = subprocess.run([sys.executable, os.path.join(repo, "isoquant.py"), "-o", ob] + common, cwd=repo, env=env, capture_output=True, text=True)
    print("resumed exit:", r2.returncode, " clean exit:", r3.returncode)

    def na(d):
        for l in open(os.path.join(d, "P", "P.gene_counts.tsv")):
            if l.startswith("__not_aligned"):
                return l.strip()
    a, b = na(oa), na(ob)
    print("resumed:", a, "| clean:", b)
    sys.exit(0 if (a == b and r2.returncode == 0) else 1)
finally:
    shutil.rmtree(work, ignore_errors=True)
    for junk in ("chr9.4M.fa.gz.fai", "chr9.4M.fa.gz.gzi"):
        try:
            os.remove(os.path.join(data, junk))
        except OSError:
            pass
