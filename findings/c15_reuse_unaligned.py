#!/usr/bin/env python3
"""C15 demo: a run restarted from saved assignments (--read_assignments) does not reproduce the __not_aligned line.

usage: /venv/bin/python c15_reuse_unaligned.py [repo_root]     exit 1 = the restarted run's tables differ, 0 = they are equal

Run A processes a BAM that contains 3 unmapped records with --keep_tmp; run B is started with --read_assignments <A>/aux/S.save.
DatasetProcessor.process_sample skips collect_reads on that branch and with it the only place where the alignment statistics are
filled, so merge_counts writes `__not_aligned 0` where run A wrote `__not_aligned 3` - although run A saved the statistics next
to the assignments (<prefix>.save_alignment_stat).
"""
import gzip
import os
import shutil
import subprocess
import sys
import tempfile

root = os.path.abspath(sys.argv[1]) if len(sys.argv) > 1 else "/repo"
tmp = tempfile.mkdtemp(prefix="c15_reuse_")
try:
    data = os.path.join(tmp, "data")
    os.makedirs(data)
    for fn in ("chr9.4M.ont.sim.polya.bam", "chr9.4M.gtf.gz", "chr9.4M.fa.gz"):
        shutil.copy(os.path.join(root, "tests/simple_data", fn), data)
    import pysam
    src = pysam.AlignmentFile(os.path.join(data, "chr9.4M.ont.sim.polya.bam"))
    bam = os.path.join(data, "in.bam")
    out = pysam.AlignmentFile(bam, "wb", template=src)
    for a in src:
        out.write(a)
    for i in range(3):
        a = pysam.AlignedSegment(out.header)
        a.query_name, a.query_sequence, a.flag, a.reference_id, a.reference_start = "unmapped%d" % i, "ACGTACGTAC", 4, -1, -1
        out.write(a)
    out.close()
    pysam.index(bam)
    env = dict(os.environ, HOME=os.path.join(tmp, "home"))
    common = ["--data_type", "nanopore", "--genedb", os.path.join(data, "chr9.4M.gtf.gz"), "--complete_genedb",
              "-r", os.path.join(data, "chr9.4M.fa.gz"), "--prefix", "S", "-t", "1"]
    ra = subprocess.run([sys.executable, os.path.join(root, "isoquant.py"), "--bam", bam, "-o", os.path.join(tmp, "A"), "--keep_tmp"] + common,
                        env=env, capture_output=True, text=True)
    rb = subprocess.run([sys.executable, os.path.join(root, "isoquant.py"), "--read_assignments", os.path.join(tmp, "A/S/aux/S.save"),
                         "-o", os.path.join(tmp, "B")] + common, env=env, capture_output=True, text=True)
    if ra.returncode or rb.returncode:
        print("pipeline failed", ra.returncode, rb.returncode, (ra.stderr + rb.stderr)[-500:])
        sys.exit(1)

    def body(path):
        op = gzip.open if path.endswith(".gz") else open
        with op(path, "rt") as f:
            return [l for l in f if not l.startswith("#")]
    bad = 0
    a_dir = os.path.join(tmp, "A", "S")
    b_dir = [os.path.join(tmp, "B", d) for d in os.listdir(os.path.join(tmp, "B")) if os.path.isdir(os.path.join(tmp, "B", d))][0]
    b_prefix = os.path.basename(b_dir)
    for fn in sorted(os.listdir(a_dir)):
        pa = os.path.join(a_dir, fn)
        if os.path.isdir(pa):
            continue
        pb = os.path.join(b_dir, b_prefix + fn[1:])
        if not os.path.exists(pb):
            print("missing in restarted run:", fn)
            bad += 1
            continue
        la, lb = body(pa), body(pb)
        if la != lb:
            diff = [(x.strip(), y.strip()) for x, y in zip(la, lb) if x != y][:2]
            print("DIFFERS %s: %s" % (fn, diff))
            bad += 1
    print("VIOLATED: %d files differ" % bad if bad else "holds: the restarted run reproduces every table")
    sys.exit(1 if bad else 0)
finally:
    shutil.rmtree(tmp, ignore_errors=True)
