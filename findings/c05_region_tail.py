#!/usr/bin/env python3
"""C05 demo: reads at the tail of a split cluster are returned for no sub-region.

usage: /venv/bin/python c05_region_tail.py [repo_root]      exit 1 = a read is lost, exit 0 = every read is forwarded

Drives the real AlignmentCollector.split_coverage_regions, InMemoryAlignmentStorage (--high_memory) and, for the default
mode, the closed-interval overlap that BAMAlignmentStorage's fetch implements, with mock alignment records (only
reference_start / reference_end are consulted by this code).

 (a) --high_memory: InMemoryAlignmentStorage.get_alignments(region) cuts the candidate index range at
     alignment_start_index[region[1] // 256], i.e. *before* the alignments that start in the last 256-bp bin of the
     requested region; a short read that lies in the final bin of a split cluster is in no sub-region.
 (c) both modes: a cluster of >= 1024 reads inside one 256-bp bin ("single-bin pile-up"): the splitting loop never runs,
     split_coverage_regions returns [] and forward_alignments forwards nothing - the whole cluster is lost.
 (b) both modes: when the coverage valley that ends a sub-region is the last bin of the cluster, split_coverage_regions
     stops without emitting the tail (last_bin*256+1 .. region end]; a read lying wholly inside it is in no sub-region.
"""
import os
import sys

root = os.path.abspath(sys.argv[1]) if len(sys.argv) > 1 else "/repo"
sys.path.insert(0, root)
from src.alignment_processor import InMemoryAlignmentStorage, AlignmentCollector  # noqa: E402
from src.common import overlaps  # noqa: E402

BIN = 256


class Rec:
    def __init__(self, a, b, n):
        self.reference_start, self.reference_end, self.query_name = a, b, n


def chain(pos, upto, step=490, length=500):
    out = []
    while pos < upto:
        out.append((pos, pos + length))
        pos += step
    return out, pos


def case_a():
    als = sorted((1000 + (i % 50), 2500 + (i % 50)) for i in range(1100))
    c, pos = chain(als[-1][1] - 10, 40000)
    als += c
    nb = (pos // BIN + 1) * BIN
    als += [(pos, nb + 200), (nb + 50, nb + 150)]          # a bridging read and a 100-bp read inside the final bin
    return als


def case_b():
    als = sorted((1000 + (i % 50), 2500 + (i % 50)) for i in range(1100))   # deep pile-up: valley threshold 11
    c, pos = chain(als[-1][1] - 10, 131 * BIN + 3000)                         # thin bridge beyond bin 131 (= 3 + 128)
    als += c
    als += sorted((pos - 100 + (i % 40), pos + 900 + (i % 40)) for i in range(300))  # second pile-up, depth 300
    c, pos = chain(pos + 800, 259 * BIN - 300)                                # thin bridge up to bin 259 (= 131 + 128)
    als += c
    als += [(pos, 259 * BIN + 120), (259 * BIN + 40, 259 * BIN + 140)]        # last bin: coverage 2 <= 0.01 * 300
    return als


def case_c():
    return sorted((1030 + (i % 60), 1130 + (i % 60)) for i in range(1100))      # everything inside bin 4 (1024..1279)


def run(name, spans, in_memory):
    als = [Rec(a, b, "r%d" % i) for i, (a, b) in enumerate(spans)]
    st = InMemoryAlignmentStorage()
    for a in als:
        st.add_alignment(0, a)
    regions = AlignmentCollector.split_coverage_regions(st.region, st)
    seen = set()
    if len(regions) == 1:           # forward_alignments: a single region is processed with all stored alignments
        seen.update(a.query_name for a in als)
    for r in regions if len(regions) != 1 else []:
        if in_memory:
            seen.update(a.query_name for _, a in st.get_alignments(r))
        else:   # BAMAlignmentStorage: fetch(chr, r[0], r[1] + 1) returns exactly the records overlapping the closed interval
            seen.update(a.query_name for a in als if overlaps(r, (a.reference_start, a.reference_end - 1)))
    lost = [(a.query_name, a.reference_start, a.reference_end) for a in als if a.query_name not in seen]
    print("%s [%s]: cluster %s, %d sub-regions, last %s, %d reads, lost: %s"
          % (name, "--high_memory" if in_memory else "default", st.region, len(regions), regions[-1] if regions else None,
             len(als), lost[:3] + (["... %d in total" % len(lost)] if len(lost) > 3 else [])))
    return lost


bad = 0
bad += bool(run("(a) read in the final bin", case_a(), True))
bad += bool(run("(b) valley in the last bin", case_b(), False))
bad += bool(run("(b) valley in the last bin", case_b(), True))
bad += bool(run("(c) single-bin pile-up", case_c(), False))
sys.exit(1 if bad else 0)
