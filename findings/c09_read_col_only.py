#!/usr/bin/env python3
"""C09 demo: `--read_group file:FILE:READ_COL` ignores READ_COL.

usage: /venv/bin/python c09_read_col_only.py [repo_root]     exit 1 = reads labelled from the wrong column, 0 = not

docs/cmd.md: `file:FILE:READ_COL:GROUP_COL:DELIM`, "READ_COL is column with read ids (0 if not set), GROUP_COL is column with group
ids (1 if not set), DELIM is separator symbol (tab if not set)".  get_file_grouping_properties honoured READ_COL only when GROUP_COL
was given too: for `file:table.tsv:2` it returned columns (0, 1), so a table `sample<TAB>group<TAB>read_id` was keyed by the sample
column, no read was found in it and every read was counted under NA.
"""
import os
import sys
import tempfile

root = os.path.abspath(sys.argv[1]) if len(sys.argv) > 1 else "/repo"
sys.path.insert(0, root)
from src.read_groups import get_file_grouping_properties, load_table  # noqa: E402

with tempfile.TemporaryDirectory() as d:
    t = os.path.join(d, "table.tsv")
    with open(t, "w") as f:
        f.write("s1\tgroupA\tread_1\ns1\tgroupB\tread_2\n")
    option = "file:%s:2" % t
    fname, read_col, group_col, delim = get_file_grouping_properties(option.split(":"))
    m = load_table(fname, read_col, group_col, delim)
print("option file:FILE:2 -> read column %d, group column %d; read -> group map: %s" % (read_col, group_col, m))
want = {"read_1": "groupA", "read_2": "groupB"}
if m != want:
    print("DEFECT: documented result is %s" % want)
    sys.exit(1)
print("as documented")
