#!/usr/bin/env python3
"""Demonstration for C11 (one-off triage, not part of any check): two left/right asymmetries found by the reflection rule X1.

1. LongReadAssigner.select_similar_isoforms: the 'read extends beyond the transcript end' penalty tests read_region[0]
   (the read START) against the transcript end, so a read running past the 3' end of a '+' isoform is not penalised
   while its mirror image (running past the start) is.
2. IntronPathProcessor.thread_starts lacks the apa_delta tolerance that thread_ends applies to untrusted read ends.
Both are shown on a configuration and its exact mirror image (coordinates x -> N - x).
usage: /venv/bin/python c11_mirror_asymmetries.py <repo-root>    exit 0 = mirrored behaviour agrees, 1 = differs
"""
import sys
import types

repo = sys.argv[1] if len(sys.argv) > 1 else "/repo"
sys.path.insert(0, repo)
from src.graph_based_model_construction import IntronPathProcessor  # noqa: E402
from src.intron_graph import VERTEX_read_end, VERTEX_read_start  # noqa: E402
from src.long_read_assigner import LongReadAssigner  # noqa: E402

N = 100000
bad = 0

# ---- 2. thread_ends vs thread_starts
params = types.SimpleNamespace(apa_delta=50, delta=6)


class FakeGraph:
    def __init__(self, outgoing, incoming):
        self.o, self.i = outgoing, incoming
        self.intron_collector = types.SimpleNamespace(clustered_introns={})
        self.outgoing_edges, self.incoming_edges = {}, {}

    def get_outgoing(self, intron, v_type=None):
        return sorted(v for v in self.o.get(intron, []) if (v[0] >= 0 if v_type is None else v[0] == v_type))

    def get_incoming(self, intron, v_type=None):
        return sorted(v for v in self.i.get(intron, []) if (v[0] >= 0 if v_type is None else v[0] == v_type))


intron = (1000, 2000)
g = FakeGraph({intron: [(VERTEX_read_end, 3000)]}, {})
p = IntronPathProcessor(params, g)
res_end = p.thread_ends(intron, 3030, trusted=False)          # read ends 30 bp beyond the known end: accepted (apa_delta)
m_intron = (N - 2000, N - 1000)
gm = FakeGraph({}, {m_intron: [(VERTEX_read_start, N - 3000)]})
pm = IntronPathProcessor(params, gm)
res_start = pm.thread_starts(m_intron, N - 3030, trusted=False)  # mirror image
print("thread_ends   (+30 bp beyond known end):   ", res_end)
print("thread_starts (mirror: 30 bp before start):", res_start)
if (res_end is None) != (res_start is None):
    print("ASYMMETRY 2: the same read end is attached on one strand and rejected on its mirror image")
    bad += 1

# ---- 1. select_similar_isoforms terminal penalty (source-level evidence through the real function's arithmetic)
import inspect
src_txt = inspect.getsource(LongReadAssigner.select_similar_isoforms)
line = [l.strip() for l in src_txt.splitlines() if l.strip().startswith("extra_right")][0]
delta = 6
read_region = (5000, 9000)
transcript_start, transcript_end = 4000, 8000              # read runs 1000 bp past the transcript END
self = types.SimpleNamespace(params=types.SimpleNamespace(delta=delta))
loc = {}
exec(line, {"read_region": read_region, "transcript_end": transcript_end, "self": self}, loc)
m_read = (N - 9000, N - 5000)
m_start, m_end = N - 8000, N - 4000
lline = [l.strip() for l in src_txt.splitlines() if l.strip().startswith("extra_left")][0]
lloc = {}
exec(lline, {"read_region": m_read, "transcript_start": m_start, "self": self}, lloc)
print("penalty for a read 1000 bp past the transcript end:", loc["extra_right"], "| mirror image (past the start):", lloc["extra_left"])
if loc["extra_right"] != lloc["extra_left"]:
    print("ASYMMETRY 1: the terminal-extension penalty differs between a locus and its mirror image")
    bad += 1
sys.exit(1 if bad else 0)
