#!/usr/bin/env python3
"""C16 demo: polyA and polyT terminal-exon counts that overlap trim away every exon.

usage: /venv/bin/python c16_overlapping_tail_counts.py [repo_root]     exit 1 = an alignment ends with an empty exon list / crash, 0 = not

PolyAFixer.correct_read_info counts the exons beyond an internal polyA position from the right and the exons before an internal
polyT position from the left.  The two counts are taken independently, so a short middle exon can be counted by both (the polyA
stretch is found to start before it ends, the polyT stretch to end after it starts).  The guard against removing everything tested
`polyt + polya == len(read_exons)` only: with an overlap the sum EXCEEDS the number of exons, nothing is reduced, and
AlignmentInfo.add_polya_info slices the exon list down to [] and then reads read_exons[0][0] (IndexError, the worker dies).
The alignment below is an ordinary 4-exon record: T-rich head, A-rich tail, short exons.
"""
import os
import sys
from collections import namedtuple

root = os.path.abspath(sys.argv[1]) if len(sys.argv) > 1 else "/repo"
sys.path.insert(0, root)
import pysam  # noqa: E402
from src.alignment_info import AlignmentInfo  # noqa: E402
from src.polya_finder import PolyAFinder  # noqa: E402
from src.polya_verification import PolyAFixer  # noqa: E402

P = namedtuple("P", "max_fake_terminal_exon_len")
hdr = pysam.AlignmentHeader.from_dict({"HD": {"VN": "1.0"}, "SQ": [{"SN": "c", "LN": 100000}]})
CASES = [
    ("TTTTTTTTTTTTTTTTTTTTTTTTTTTAAATATTTAAAAAAAACAAAAAA", [(0, 17), (3, 155), (0, 5), (3, 147), (0, 17), (3, 72), (0, 6), (4, 5)]),
    ("TTATTTTTGTTTTTTTTTTTTTTTTTTAAAATTATAAAAAAAAATAAAAAAAAAAAAAAAAAACACAAACAAAAAAAAA",
     [(0, 23), (3, 190), (0, 12), (3, 138), (0, 18), (3, 55), (0, 21), (4, 5)]),
    ("TTTTTTTTTTTTAATTATAAAAAAAAAAAAAAAAAAAAAAAAAAAAAAAAA", [(0, 12), (3, 153), (0, 2), (3, 56), (0, 22), (3, 177), (0, 10), (4, 5)]),
]
bad = 0
for seq, cigar in CASES:
    a = pysam.AlignedSegment(hdr)
    a.query_name, a.query_sequence, a.flag, a.reference_id, a.reference_start, a.mapping_quality = "r", seq, 0, 0, 1000, 60
    a.cigartuples = cigar
    info = AlignmentInfo(a)
    n = len(info.read_exons)
    try:
        info.add_polya_info(PolyAFinder(), PolyAFixer(P(20)))
        left = len(info.read_exons)
        ordered = all(info.read_exons[i][1] < info.read_exons[i + 1][0] for i in range(left - 1))
        print("%d exons -> %d kept %s" % (n, left, info.read_exons))
        if left == 0 or not ordered:
            bad += 1
    except IndexError as e:
        print("%d exons -> trimming removed all of them: IndexError %s (exon list %s)" % (n, e, info.read_exons))
        bad += 1
print("VIOLATED" if bad else "holds")
sys.exit(1 if bad else 0)
