#!/usr/bin/env python3
"""Demonstration for C18 (found by an independent sub-agent while seeding; one-off triage, not part of any check).

Runs the toy pipeline with --check_canonical and re-derives every stranded spliced read's Canonical flag directly from
the FASTA.  On the defective tree reads whose introns lie outside their assigned gene get a wrong flag.
usage: /venv/bin/python c18_reference_window.py <repo-root>    exit 0 = all flags agree with the FASTA, 1 = some differ
"""
import gzip
import os
import shutil
import subprocess
import sys
import tempfile

repo = os.path.abspath(sys.argv[1] if len(sys.argv) > 1 else "/repo")
data = os.path.join(repo, "tests", "simple_data")
work = tempfile.mkdtemp(prefix="c18demo_")
try:
    ref = os.path.join(work, "ref.fa.gz")
    shutil.copy(os.path.join(data, "chr9.4M.fa.gz"), ref)
    r = subprocess.run([sys.executable, os.path.join(repo, "isoquant.py"), "-o", os.path.join(work, "out"), "--data_type", "nanopore",
                        "--bam", os.path.join(data, "chr9.4M.ont.sim.polya.bam"), "--genedb", os.path.join(data, "chr9.4M.gtf.gz"),
                        "--complete_genedb", "-r", ref, "-t", "1", "--prefix", "P", "--check_canonical"],
                       cwd=repo, env=dict(os.environ, HOME=work), capture_output=True, text=True)
    if r.returncode != 0:
        print((r.stdout + r.stderr)[-1500:])
        sys.exit(2)
    seq = "".join(l.strip() for l in gzip.open(ref, "rt") if not l.startswith(">")).upper()
    FWD = {("GT", "AG"), ("GC", "AG"), ("AT", "AC")}
    REV = {("CT", "AC"), ("CT", "GC"), ("GT", "AT")}
    bad = []
    n = 0
    for line in gzip.open(os.path.join(work, "out", "P", "P.read_assignments.tsv.gz"), "rt"):
        if line.startswith("#"):
            continue
        f = line.rstrip("\n").split("\t")
        strand, exons, info = f[2], f[7], f[8]
        if strand not in "+-" or "Canonical=" not in info or "Unspliced" in info:
            continue
        ex = [tuple(map(int, e.split("-"))) for e in exons.split(",")]
        introns = [(ex[i][1] + 1, ex[i + 1][0] - 1) for i in range(len(ex) - 1)]
        want = all(((seq[a - 1:a + 1], seq[b - 2:b]) in (FWD if strand == "+" else REV)) for a, b in introns)
        got = "Canonical=True" in info
        n += 1
        if want != got:
            bad.append((f[0], strand, got, want))
    print("checked %d stranded spliced read rows" % n)
    for b in bad[:5]:
        print("WRONG FLAG: read %s strand %s reported Canonical=%s, FASTA says %s" % b)
    sys.exit(1 if bad else 0)
finally:
    shutil.rmtree(work, ignore_errors=True)
