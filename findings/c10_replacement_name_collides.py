#!/usr/bin/env python3
"""C10 demo: the replacement chosen for a duplicate experiment name can collide with an earlier experiment.

usage: /venv/bin/python c10_replacement_name_collides.py [repo_root]     exit 1 = two experiments of one run share a name, 0 = not

get_samples_from_file / get_samples_from_yaml rename an experiment whose name was already used to `<prefix><index>`, but that
replacement was never looked up in the names collected so far.  With `--prefix OUT` the list file below names its experiments
OUT2, A and A; the third becomes OUT2 again: both get <output>/OUT2 as their folder and OUT2.* as file names, so the later experiment
overwrites the files of the earlier one (and combined_* tables get pandas suffixes instead of one column per experiment).
"""
import os
import sys
import tempfile

root = os.path.abspath(sys.argv[1]) if len(sys.argv) > 1 else "/repo"
sys.path.insert(0, root)
from src.input_data_storage import InputDataStorage  # noqa: E402


class Stub:
    experiment_prefix = "OUT"
    input_type = "bam"


bad = 0
with tempfile.TemporaryDirectory() as d:
    lst = os.path.join(d, "list.txt")
    with open(lst, "w") as f:
        f.write("#OUT2\n/data/a.bam\n#A\n/data/b.bam\n#A\n/data/c.bam\n")
    try:
        _files, names, _labels, _ill = InputDataStorage.get_samples_from_file(Stub(), lst)
        print("list file  ->", names)
        bad += len(set(names)) != len(names)
    except SystemExit as e:
        print("list file  -> rejected (exit %s)" % e.code)
    yml = os.path.join(d, "data.yaml")
    with open(yml, "w") as f:
        f.write('[\n  {"data format": "bam"},\n  {"name": "OUT2", "long read files": ["/data/a.bam"]},\n'
                '  {"name": "A", "long read files": ["/data/b.bam"]},\n  {"name": "A", "long read files": ["/data/c.bam"]}\n]\n')
    try:
        _files, names, _labels, _ill = InputDataStorage.get_samples_from_yaml(Stub(), yml)
        print("YAML file  ->", names)
        bad += len(set(names)) != len(names)
    except SystemExit as e:
        print("YAML file  -> rejected (exit %s)" % e.code)
if bad:
    print("DEFECT: two experiments of one run have the same name (same output folder and file prefix)")
    sys.exit(1)
print("names are distinct or the description is rejected")
