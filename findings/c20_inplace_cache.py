#!/usr/bin/env python3
"""Demonstration for C20 (one-off triage, not part of any check).

Two IsoQuant processes share $HOME/.config/IsoQuant/*.json.  The schedule shown here:
  writer: store_bed() has opened bed_config.json for writing (file truncated), json.dump not finished
  reader: find_stored_bed() runs json.load on that file
is forced deterministically by pausing the writer inside json.dump.  On the defective tree the
reader dies with JSONDecodeError; on the repaired tree it sees the previous complete file.

usage: /venv/bin/python c20_inplace_cache.py <repo-root>      exit 0 = no interference, 1 = reader crashed
"""
import json
import os
import sys
import tempfile
import threading
import types

repo = sys.argv[1] if len(sys.argv) > 1 else "/repo"
sys.path.insert(0, repo)
from src import read_mapper  # noqa: E402

d = tempfile.mkdtemp(prefix="c20demo_")
genedb = os.path.join(d, "a.db")
bed = os.path.join(d, "a.bed")
for p in (genedb, bed):
    open(p, "w").close()
args = types.SimpleNamespace(genedb=genedb, bed_config_path=os.path.join(d, "bed_config.json"))
with open(args.bed_config_path, "w") as f:
    json.dump({}, f)
read_mapper.store_bed(bed, args)           # a complete cache with one entry exists

writer_in_dump = threading.Event()
reader_done = threading.Event()
real_dump = json.dump
result = {}


def slow_dump(obj, fp, *a, **kw):
    writer_in_dump.set()                   # the target of this dump is open; if it is the shared file it is empty now
    reader_done.wait(10)
    return real_dump(obj, fp, *a, **kw)


def reader():
    writer_in_dump.wait(10)
    try:
        result["value"] = read_mapper.find_stored_bed(args)
    except Exception as e:                 # noqa: BLE001
        result["error"] = repr(e)
    reader_done.set()


json.dump = slow_dump
t = threading.Thread(target=reader)
t.start()
read_mapper.store_bed(bed, args)           # concurrent writer
t.join()
json.dump = real_dump
import shutil
shutil.rmtree(d, ignore_errors=True)
if "error" in result:
    print("READER CRASHED while another run was updating the cache:", result["error"])
    sys.exit(1)
print("reader saw a complete cache:", result.get("value"))
sys.exit(0)
