#!/usr/bin/env python3
"""C02 demo: a read tied between two loci contributes 1.0 to each of them, whatever the quantification strategy.

usage: /venv/bin/python c02_cross_locus_tie.py [repo_root]     exit 1 = some read contributes a total weight above 1 to the gene table

The genome holds the toy locus twice (chrA, and a copy chrB with gene / transcript ids suffixed `_B`).  Every read has a primary alignment on one copy
(alternating) and a secondary alignment at the same coordinates on the other.  A read whose primary assignment is ambiguous
(several isoforms fit equally) has no "primary unique" record, so MultimapResolver.select_best_assignment keeps all consistent
records - the primary one on chrA and the secondary one on chrB - and flags both `ambiguous` because together they name two genes.
AssignedFeatureCounter.add_read_info then weights each RECORD by its own feature count: process_ambiguous(1) = 1.0.  The read is
counted once for the gene on chrA and once for the gene on chrB: with `unique_only` it should not be counted at all, with
`with_ambiguous` it should give 1/2 to each.
"""
import gzip
import os
import shutil
import subprocess
import sys
import tempfile
from collections import defaultdict

root = os.path.abspath(sys.argv[1]) if len(sys.argv) > 1 else "/repo"
import pysam  # noqa: E402

tmp = tempfile.mkdtemp(prefix="c02_tie_")
try:
    sd = os.path.join(root, "tests", "simple_data")
    # genome: chr9 twice
    with gzip.open(os.path.join(sd, "chr9.4M.fa.gz"), "rt") as f:
        lines = f.read().splitlines()
    seq = "".join(l for l in lines if not l.startswith(">"))
    fa = os.path.join(tmp, "g.fa")
    with open(fa, "w") as f:
        for name in ("chrA", "chrB"):
            f.write(">%s\n" % name)
            for i in range(0, len(seq), 60):
                f.write(seq[i:i + 60] + "\n")
    # annotation: both copies, ids of the second suffixed
    gtf = os.path.join(tmp, "a.gtf")
    with gzip.open(os.path.join(sd, "chr9.4M.gtf.gz"), "rt") as f, open(gtf, "w") as out:
        rows = [l for l in f if not l.startswith("#")]
        for l in rows:
            v = l.split("\t")
            v[0] = "chrA"
            out.write("\t".join(v))
        for l in rows:
            v = l.split("\t")
            v[0] = "chrB"
            for key in ("gene_id", "transcript_id", "exon_id", "gene_name", "transcript_name"):
                v[8] = v[8].replace('%s "' % key, '%s "B_' % key)
            out.write("\t".join(v))
    # reads: primary on chrA, secondary copy on chrB
    src = pysam.AlignmentFile(os.path.join(sd, "chr9.4M.ont.sim.polya.bam"))
    header = {"HD": {"VN": "1.0", "SO": "coordinate"}, "SQ": [{"SN": "chrA", "LN": len(seq)}, {"SN": "chrB", "LN": len(seq)}]}
    bam = os.path.join(tmp, "r.bam")
    n_reads = 0
    with pysam.AlignmentFile(bam + ".u.bam", "wb", header=header) as out:
        for a in src:
            if a.is_unmapped or a.is_secondary or a.is_supplementary:
                continue
            n_reads += 1
            prim = n_reads % 2                       # alternate the primary locus so that both copies get uniquely assigned reads
            for ref, flag in ((prim, a.flag & ~0x100), (1 - prim, a.flag | 0x100)):
                b = pysam.AlignedSegment(out.header)
                b.query_name, b.query_sequence, b.flag, b.reference_id, b.reference_start = a.query_name, a.query_sequence, flag, ref, a.reference_start
                b.mapping_quality, b.cigartuples, b.query_qualities = a.mapping_quality, a.cigartuples, a.query_qualities
                out.write(b)
    pysam.sort("-o", bam, bam + ".u.bam")
    pysam.index(bam)
    env = dict(os.environ, HOME=os.path.join(tmp, "home"))
    bad = 0
    for strategy in ("unique_only", "with_ambiguous"):
        outd = os.path.join(tmp, "out_" + strategy)
        r = subprocess.run([sys.executable, os.path.join(root, "isoquant.py"), "--data_type", "nanopore", "--bam", bam, "-r", fa,
                            "--genedb", gtf, "--complete_genedb", "-o", outd, "--prefix", "S", "-t", "1",
                            "--gene_quantification", strategy], env=env, capture_output=True, text=True)
        if r.returncode:
            print("pipeline failed", r.stderr[-400:])
            sys.exit(1)
        # per read: the genes it is reported with, per chromosome
        genes = defaultdict(set)
        types = defaultdict(set)
        with gzip.open(os.path.join(outd, "S", "S.read_assignments.tsv.gz"), "rt") as f:
            for l in f:
                if l.startswith("#"):
                    continue
                v = l.rstrip("\n").split("\t")
                if v[4] != ".":
                    genes[v[0]].add(v[4])
                    ga = [x.split("=")[1] for x in v[8].replace(";", " ").split() if x.startswith("gene_assignment=")]
                    types[v[0]].add(ga[0] if ga else v[5])
        shared = {r_ for r_, g in genes.items() if len(g) == 2 and any(x.startswith("B_") for x in g) and not all(x.startswith("B_") for x in g)}
        counts = {}
        for l in open(os.path.join(outd, "S", "S.gene_counts.tsv")):
            v = l.split("\t")
            if not l.startswith(("#", "__")):
                counts[v[0]] = float(v[1])
        # every read may contribute at most 1 to the table: compare the table's sum with the number of distinct reads that carry a gene
        assigned = {r_ for r_, g in genes.items() if g}
        total = sum(counts.values())
        unique_reads = {r_ for r_ in assigned if len(genes[r_]) == 1}
        w = 0.0 if strategy == "unique_only" else 0.5
        print("%s: %d distinct reads carry a gene, %d of them are reported (ambiguous) on a gene and on its copy; the gene table sums to %.2f"
              % (strategy, len(assigned), len(shared), total))
        per_pair = defaultdict(int)
        for r_ in shared:
            per_pair[tuple(sorted(genes[r_]))] += 1
        for pair, k in sorted(per_pair.items(), key=lambda kv: -kv[1])[:3]:
            print("  %d shared reads of %s / %s: documented weight %.1f each per gene; table rows %.2f / %.2f"
                  % (k, pair[1], pair[0], w, counts.get(pair[1], 0.0), counts.get(pair[0], 0.0)))
        n_unique = len([r_ for r_ in assigned if types[r_] <= {"unique", "unique_minor_difference"}])
        documented = n_unique + 2 * w * len(shared)
        print("  documented weighting: %d uniquely assigned reads x 1 + %d shared reads x 2 x %.1f = %.2f; table sum %.2f"
              % (n_unique, len(shared), w, documented, total))
        if shared and total > documented + 0.01:
            print("  -> every shared read is counted 1.0 for BOTH genes (total 2.0 per read)")
            bad += 1
    print("VIOLATED" if bad else "holds")
    sys.exit(1 if bad else 0)
finally:
    shutil.rmtree(tmp, ignore_errors=True)
