#!/usr/bin/env python3
"""Demonstration for C06 (one-off triage, not part of any check).

GeneInfo.set_feature_properties puts the genes of a shared exon/intron into the count tables in set-iteration order.
The script builds the real GeneInfo feature table for two overlapping genes that share an exon, under several
PYTHONHASHSEED values (in sub-interpreters), and compares the printed rows.
usage: /venv/bin/python c06_hashseed_gene_ids.py <repo-root>     exit 0 = identical for all seeds, 1 = differs
"""
import os
import subprocess
import sys

repo = os.path.abspath(sys.argv[1] if len(sys.argv) > 1 else "/repo")
CHILD = r'''
import sys
sys.path.insert(0, %r)
import gffutils
from src.gene_info import GeneInfo
gtf = """chr1\tt\tgene\t100\t900\t.\t+\t.\tgene_id "GENE_ALPHA";
chr1\tt\ttranscript\t100\t900\t.\t+\t.\tgene_id "GENE_ALPHA"; transcript_id "A.1";
chr1\tt\texon\t100\t200\t.\t+\t.\tgene_id "GENE_ALPHA"; transcript_id "A.1";
chr1\tt\texon\t400\t500\t.\t+\t.\tgene_id "GENE_ALPHA"; transcript_id "A.1";
chr1\tt\texon\t800\t900\t.\t+\t.\tgene_id "GENE_ALPHA"; transcript_id "A.1";
chr1\tt\tgene\t300\t1200\t.\t+\t.\tgene_id "GENE_BETA_READTHROUGH";
chr1\tt\ttranscript\t300\t1200\t.\t+\t.\tgene_id "GENE_BETA_READTHROUGH"; transcript_id "B.1";
chr1\tt\texon\t300\t350\t.\t+\t.\tgene_id "GENE_BETA_READTHROUGH"; transcript_id "B.1";
chr1\tt\texon\t400\t500\t.\t+\t.\tgene_id "GENE_BETA_READTHROUGH"; transcript_id "B.1";
chr1\tt\texon\t1100\t1200\t.\t+\t.\tgene_id "GENE_BETA_READTHROUGH"; transcript_id "B.1";
chr1\tt\tgene\t350\t1000\t.\t+\t.\tgene_id "G3";
chr1\tt\ttranscript\t350\t1000\t.\t+\t.\tgene_id "G3"; transcript_id "C.1";
chr1\tt\texon\t400\t500\t.\t+\t.\tgene_id "G3"; transcript_id "C.1";
chr1\tt\texon\t950\t1000\t.\t+\t.\tgene_id "G3"; transcript_id "C.1";
"""
db = gffutils.create_db(gtf, ":memory:", from_string=True, disable_infer_genes=True, disable_infer_transcripts=True)
genes = sorted(db.features_of_type("gene"), key=lambda g: g.start)
gi = GeneInfo(genes, db)
print("|".join(f.to_str() for f in gi.exon_property_map))
'''
rows = set()
for seed in ("1", "2", "3", "4", "5", "6", "7", "8"):
    r = subprocess.run([sys.executable, "-c", CHILD % repo], env=dict(os.environ, PYTHONHASHSEED=seed), capture_output=True, text=True)
    if r.returncode != 0:
        print(r.stderr[-800:])
        sys.exit(2)
    shared = [x for x in r.stdout.strip().split("|") if "400\t500" in x]
    rows.add(shared[0])
for x in sorted(rows):
    print(repr(x))
print("RESULT:", "rows differ between hash seeds" if len(rows) > 1 else "identical for all seeds")
sys.exit(1 if len(rows) > 1 else 0)
