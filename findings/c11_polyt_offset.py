#!/usr/bin/env python3
"""C11 demo: the polyT position of a read is not the mirror image of the polyA position of the reverse-complemented read.

usage: /venv/bin/python c11_polyt_offset.py [repo_root]     exit 1 = positions differ from the mirror image, 0 = they are mirror images

A read with an A-tail right behind its aligned part gets its polyA position on the last aligned base (first tail base - 1).
The reverse complement of the same read, aligned to the mirrored coordinates, gets its polyT position two bases before the first
aligned base (last head base - 1 instead of + 1): PolyAFinder.find_polyt_head computes `alignment.reference_start - shift` with the
0-based reference_start where the mirror image of find_polya_tail would be `alignment.reference_start + 2 - shift` (both branches).
"""
import os
import random
import sys

root = os.path.abspath(sys.argv[1]) if len(sys.argv) > 1 else "/repo"
sys.path.insert(0, root)
import pysam  # noqa: E402
from src.polya_finder import PolyAFinder  # noqa: E402

G = 100000
hdr = pysam.AlignmentHeader.from_dict({"HD": {"VN": "1.0"}, "SQ": [{"SN": "c", "LN": G}]})
comp = {"A": "T", "C": "G", "G": "C", "T": "A"}
rnd = random.Random(3)
body = "".join(rnd.choice("CG") + rnd.choice("ACGT") for _ in range(60))
fin = PolyAFinder()
bad = 0
for tail, clip in ((30, 30), (30, 0)):
    seq = body + "A" * tail
    aligned = len(seq) - clip
    cig = [(0, aligned)] + ([(4, clip)] if clip else [])
    a = pysam.AlignedSegment(hdr)
    a.query_name, a.query_sequence, a.flag, a.reference_id, a.reference_start, a.mapping_quality, a.cigartuples = "f", seq, 0, 0, 5000, 60, cig
    b = pysam.AlignedSegment(hdr)
    b.query_name, b.query_sequence, b.flag, b.reference_id = "r", "".join(comp[c] for c in reversed(seq)), 16, 0
    b.reference_start, b.mapping_quality, b.cigartuples = G - (5000 + aligned), 60, list(reversed(cig))
    for name, fa, ft in (("external", fin.find_polya_external, fin.find_polyt_external), ("internal", fin.find_polya_internal, fin.find_polyt_internal)):
        pa, pt = fa(a), ft(b)
        if -1 in (pa, pt):
            continue
        mir = G + 1 - pt
        print("A-tail of %d (%d clipped), %s search: polyA at %d; polyT of the mirrored read at %d = mirror image of %d (%+d)"
              % (tail, clip, name, pa, pt, mir, mir - pa))
        if mir != pa:
            bad += 1
print("VIOLATED" if bad else "holds")
sys.exit(1 if bad else 0)
